// C11 — Link faults at any point of a session fail safe.
//
// For each chip configuration of a small matrix the fault-free transcript of a
// complete read is recorded; then, for EVERY exchange index k and EVERY fault
// kind, a full read is run with that single fault injected between chip and
// reader (exhaustive fault enumeration).  Random multi-fault sequences follow.
package c11

import (
	"bytes"
	"encoding/hex"
	"fmt"
	"sort"
	"strings"
	"testing"

	"github.com/gmrtd/gmrtd/document"

	"pgregory.net/rapid"

	"verifharness/chipsim"
	"verifharness/evid"
	"verifharness/persona"
	"verifharness/readcheck"
)

const prop = "C11"

func TestMain(m *testing.M) { evid.Main(m, prop) }

type config struct {
	name   string
	o      persona.Opts
	maxLe  int // reader's maximum read size (0 = 96)
	pwKind int
}

func (c config) readOpts() readcheck.ReadOpts {
	le := c.maxLe
	if le == 0 {
		le = 96
	}
	return readcheck.ReadOpts{LibSeed: []byte(c.name), MaxLe: le, PwKind: c.pwKind}
}

func configs() []config {
	base := func(seed string) persona.Opts {
		return persona.Opts{Seed: []byte(seed), Country: "DE", Layout: "TD3", Trusted: true, Extended: true, DGs: []int{11}, MaxImage: 200}
	}
	var out []config
	{
		o := base("c11-bac-aa-rsa")
		o.Access, o.AA, o.AARSABits = "BAC", "RSA", 1024
		out = append(out, config{name: "BAC+AA-RSA", o: o})
	}
	{
		o := base("c11-pace-ca")
		o.Access, o.CA, o.CACipher = "PACE+BAC", true, "AES-128"
		out = append(out, config{name: "PACE-GM+CA", o: o})
	}
	{
		o := base("c11-cam")
		o.Access = "PACE-CAM"
		out = append(out, config{name: "PACE-CAM", o: o})
	}
	{
		o := base("c11-pace-aa-ec")
		o.Access, o.AA, o.AACurve, o.CA = "PACE", "ECDSA", "P-256", true
		o.PaceCipher = "3DES"
		out = append(out, config{name: "PACE-GM+AA-ECDSA+CA", o: o})
	}
	{
		o := base("c11-bac-only")
		o.Access = "BAC"
		o.DGs = []int{2, 11}
		out = append(out, config{name: "BAC-only", o: o})
	}
	{
		// a chip without access control read with full-size (256-byte) chunks: every response travels
		// unprotected, so the reader's own length / offset bookkeeping is all that guards the files
		o := base("c11-open-chip")
		o.Access = "NONE"
		o.DGs = []int{2, 11}
		o.MaxImage = 700
		out = append(out, config{name: "no-access-control-256", o: o, maxLe: 256, pwKind: 3})
	}
	{
		// no access control, Active Authentication only (DG15 without DG14)
		o := base("c11-open-aa")
		o.Access, o.AA, o.AARSABits = "NONE", "RSA", 1024
		out = append(out, config{name: "no-access-control+AA", o: o, pwKind: 3})
	}
	return out
}

// fault kinds -----------------------------------------------------------------

type faultKind struct {
	name string
	// apply gets the genuine response and the previous (delivered) response
	apply func(g, prev []byte) []byte
	// lost: the command never reaches the chip
	lost bool
}

func swOnly(sw uint16) func(g, prev []byte) []byte {
	return func(g, prev []byte) []byte { return []byte{byte(sw >> 8), byte(sw)} }
}

func flipAt(pos func(n int) int) func(g, prev []byte) []byte {
	return func(g, prev []byte) []byte {
		o := append([]byte{}, g...)
		if len(o) == 0 {
			return []byte{0xFF}
		}
		i := pos(len(o))
		if i < 0 {
			i = 0
		}
		if i >= len(o) {
			i = len(o) - 1
		}
		o[i] ^= 0x20
		return o
	}
}

var faultKinds = []faultKind{
	{name: "empty", apply: func(g, prev []byte) []byte { return []byte{} }},
	{name: "nil", apply: func(g, prev []byte) []byte { return nil }},
	{name: "one-byte", apply: func(g, prev []byte) []byte { return []byte{0x90} }},
	{name: "truncated-half", apply: func(g, prev []byte) []byte { return append([]byte{}, g[:len(g)/2]...) }},
	{name: "truncated-minus1", apply: func(g, prev []byte) []byte { return append([]byte{}, g[:max(0, len(g)-1)]...) }},
	{name: "truncated-minus2", apply: func(g, prev []byte) []byte { return append([]byte{}, g[:max(0, len(g)-2)]...) }},
	{name: "truncated-keep-sw", apply: func(g, prev []byte) []byte {
		if len(g) < 4 {
			return []byte{0x90, 0x00}
		}
		return append(append([]byte{}, g[:(len(g)-2)/2]...), g[len(g)-2:]...)
	}},
	{name: "garbled-first", apply: flipAt(func(n int) int { return 0 })},
	{name: "garbled-middle", apply: flipAt(func(n int) int { return (n - 2) / 2 })},
	{name: "garbled-mac", apply: flipAt(func(n int) int { return n - 4 })},
	{name: "garbled-sw1", apply: flipAt(func(n int) int { return n - 2 })},
	{name: "garbled-sw2", apply: flipAt(func(n int) int { return n - 1 })},
	{name: "oversized-plus1", apply: func(g, prev []byte) []byte {
		k := max(0, len(g)-2)
		return append(append(append([]byte{}, g[:k]...), 0x00), g[k:]...)
	}},
	{name: "oversized-plus300", apply: func(g, prev []byte) []byte {
		k := max(0, len(g)-2)
		return append(append(append([]byte{}, g[:k]...), bytes.Repeat([]byte{0xA5}, 300)...), g[k:]...)
	}},
	{name: "oversized-70000", apply: func(g, prev []byte) []byte {
		return append(bytes.Repeat([]byte{0x5A}, 70000), 0x90, 0x00)
	}},
	{name: "trailing-after-sw", apply: func(g, prev []byte) []byte { return append(append([]byte{}, g...), 0x90, 0x00) }},
	{name: "sw-6700", apply: swOnly(0x6700)},
	{name: "sw-6982", apply: swOnly(0x6982)},
	{name: "sw-6a82", apply: swOnly(0x6A82)},
	{name: "sw-6a86", apply: swOnly(0x6A86)},
	{name: "sw-6b00", apply: swOnly(0x6B00)},
	{name: "sw-6d00", apply: swOnly(0x6D00)},
	{name: "sw-6300", apply: swOnly(0x6300)},
	{name: "sw-6283", apply: swOnly(0x6283)},
	{name: "sw-6988", apply: swOnly(0x6988)},
	{name: "error-with-data", apply: func(g, prev []byte) []byte {
		k := max(0, len(g)-2)
		return append(append([]byte{}, g[:k]...), 0x69, 0x82)
	}},
	{name: "9000-no-data", apply: swOnly(0x9000)},
	{name: "previous-repeated", apply: func(g, prev []byte) []byte { return append([]byte{}, prev...) }},
	{name: "command-lost", lost: true, apply: func(g, prev []byte) []byte { return []byte{} }},
	{name: "command-lost-6f00", lost: true, apply: func(g, prev []byte) []byte { return []byte{0x6F, 0x00} }},
	// the command never reached the chip and the link layer (or a relay) answered in its place with a
	// status that has a meaning of its own for the command: "file not found", "SM objects incorrect"
	{name: "command-lost-6a82", lost: true, apply: func(g, prev []byte) []byte { return []byte{0x6A, 0x82} }},
	{name: "command-lost-6988", lost: true, apply: func(g, prev []byte) []byte { return []byte{0x69, 0x88} }},
}

// injector sits between reader and chip.
type injector struct {
	chip      *chipsim.Chip
	plan      map[int]int // exchange index -> fault kind index
	n         int
	prev      []byte
	Fired     []string
	Changed   bool
	MaxCalls  int
	Exhausted bool
	// Absence: a fault fired that a reader cannot tell from "the chip says this file does not
	// exist": the status 6A82 / 6283 on a SELECT sent without secure messaging.  (With several
	// faults in one read a silently missing file is attributed to such a fault if one fired.)
	Absence bool
	// Garbled: a fault fired that alters content without altering length or framing (bit flips,
	// a repeated earlier response): on an UNPROTECTED read no reader can notice it by itself.
	Garbled bool
}

func (in *injector) noteFault(fk int, cla, ins int) {
	name := faultKinds[fk].name
	if strings.HasPrefix(name, "garbled-") || name == "previous-repeated" {
		in.Garbled = true
	}
	if (name == "sw-6a82" || name == "sw-6283" || name == "command-lost-6a82") && cla&0x0C == 0 && ins == 0xA4 {
		in.Absence = true
	}
}

func (in *injector) Transceive(cla int, ins int, p1 int, p2 int, data []byte, le int, encoded []byte) []byte {
	idx := in.n
	in.n++
	if in.MaxCalls > 0 && in.n > in.MaxCalls {
		// the deterministic "never loops" bound was exceeded: starve the reader
		in.Exhausted = true
		return []byte{0x6F, 0x00}
	}
	fk, hit := in.plan[idx]
	if hit && faultKinds[fk].lost {
		out := faultKinds[fk].apply(nil, in.prev)
		in.Fired = append(in.Fired, fmt.Sprintf("%d:%s", idx, faultKinds[fk].name))
		in.Changed = true
		in.noteFault(fk, cla, ins)
		in.prev = out
		return out
	}
	g := in.chip.Transceive(cla, ins, p1, p2, data, le, encoded)
	out := g
	if hit {
		out = faultKinds[fk].apply(g, in.prev)
		in.Fired = append(in.Fired, fmt.Sprintf("%d:%s", idx, faultKinds[fk].name))
		if !bytes.Equal(out, g) {
			in.Changed = true
			in.noteFault(fk, cla, ins)
		}
	}
	in.prev = out
	return out
}

type baseline struct {
	p         *persona.Persona
	exchanges int
	files     map[string]bool // files of the fault-free result
	steps     map[string]bool // steps successful in the fault-free read
}

// stepVector: which steps are recorded successful, and which carry a recorded failure.
func stepVector(s *document.Session) (ok map[string]bool, failed map[string]bool) {
	ok, failed = map[string]bool{}, map[string]bool{}
	set := func(name string, present, success bool, err error) {
		ok[name] = present && success
		failed[name] = err != nil || (present && !success)
	}
	set("PACE", s.PaceResult != nil, s.PaceResult != nil && s.PaceResult.Success, s.PaceErr)
	set("BAC", s.BacResult != nil, s.BacResult != nil && s.BacResult.Success, s.BacErr)
	set("PACE-CAM", s.PaceCamResult != nil, s.PaceCamResult != nil && s.PaceCamResult.Success, nil)
	set("AA", s.ActiveAuthResult != nil, s.ActiveAuthResult != nil && s.ActiveAuthResult.Success, s.ActiveAuthErr)
	set("CA", s.ChipAuthResult != nil, s.ChipAuthResult != nil && s.ChipAuthResult.Success, s.ChipAuthErr)
	set("PA", s.PassiveAuthResult != nil, s.PassiveAuthResult != nil && s.PassiveAuthResult.Success, s.PassiveAuthErr)
	set("completeness", true, s.DocumentVerifyErr == nil, s.DocumentVerifyErr)
	return ok, failed
}

func faultFree(t *testing.T, c config) *baseline {
	p, err := persona.Build(c.o)
	if err != nil {
		evid.Infra(t, "persona.Build(%s): %v", c.name, err)
	}
	chip := p.NewChip()
	in := &injector{chip: chip, plan: map[int]int{}}
	r, err := readcheck.Read(p, in, c.readOpts())
	if err != nil {
		evid.Infra(t, "fault-free read setup (%s): %v", c.name, err)
	}
	if r.Err != nil {
		evid.Infra(t, "fault-free read of %s fails: %v", c.name, r.Err)
	}
	if msg := readcheck.StepOutcomes(p, &r.DocEx.Session); msg != "" {
		evid.Infra(t, "fault-free read of %s: %s", c.name, msg)
	}
	if s := r.DocEx.Summary(); !s.DataTrusted {
		evid.Infra(t, "fault-free read of %s is not trusted", c.name)
	}
	b := &baseline{p: p, exchanges: in.n, files: map[string]bool{}}
	for name := range readcheck.DocFiles(&r.DocEx.Document) {
		b.files[name] = true
	}
	b.steps, _ = stepVector(&r.DocEx.Session)
	return b
}

// runFaulted performs one read with the given fault plan and applies the oracle.
func runFaulted(t interface {
	Fatalf(string, ...any)
	Helper()
	Logf(string, ...any)
}, c config, b *baseline, plan map[int]int, check string) (reached bool) {
	chip := b.p.NewChip()
	// what a chip answers to a protected command once it has aborted the session differs between
	// products; the fault-free read never sees it, so it is varied with the plan
	noSession := []uint16{0x6882, 0x6988, 0x6987, 0x6982}
	h := len(c.name)
	for k, f := range plan {
		h += 3*k + f
	}
	chip.Cfg.NoSessionSW = noSession[h%len(noSession)]
	limit := 20*b.exchanges + 1100
	in := &injector{chip: chip, plan: plan, MaxCalls: limit}
	rep := map[string]any{"config": c.name, "plan": planString(plan), "faultFreeExchanges": b.exchanges, "chipStatusWithoutSession": fmt.Sprintf("%04x", chip.Cfg.NoSessionSW)}
	var r *readcheck.Result
	var err error
	var escaped any
	back, dump := evid.Watch(func() {
		defer func() { escaped = recover() }()
		r, err = readcheck.Read(b.p, in, c.readOpts())
	})
	if !back {
		// "never crashes or loops": the read neither returned nor sent another command for evid.HangLimit
		rep["fired"], rep["exchanges"] = in.Fired, in.n
		if i := strings.Index(dump, "reader.(*Reader).ReadDocument"); i >= 0 {
			dump = dump[max(0, i-1500):min(len(dump), i+1500)]
		}
		rep["goroutines"] = dump
		evid.Abort(check+"-hang", rep, "ReadDocument did not return within %v after the fault (%d exchanges done; fault-free read: %d): endless loop or deadlock", evid.HangLimit, in.n, b.exchanges)
	}
	if escaped != nil {
		evid.Fail(t, check+"-panic", rep, "panic escaped ReadDocument: %v", escaped)
	}
	if err != nil {
		evid.Fail(t, check+"-setup", rep, "%v", err)
	}
	rep["fired"], rep["exchanges"] = in.Fired, in.n
	if in.Exhausted {
		evid.Fail(t, check+"-loop", rep, "read did not terminate within %d exchanges (fault-free: %d)", limit, b.exchanges)
	}
	reached = len(in.Fired) == len(plan)
	if r.DocEx == nil {
		if r.Err == nil {
			evid.Fail(t, check+"-nil", rep, "ReadDocument returned neither a document nor an error")
		}
		return reached
	}
	// 1. every file returned equals the chip's file
	if msg := filesOK(b.p, r, in); msg != "" {
		evid.Fail(t, check+"-files", rep, "%s", msg)
	}
	// 2. a step reported successful was completed by the chip
	if msg := readcheck.AgreesWithChip(chip, &r.DocEx.Session); msg != "" {
		evid.Fail(t, check+"-steps", rep, "%s", msg)
	}
	// 3. trusted only if the files obtained pass passive authentication
	sum := r.DocEx.Summary()
	if sum.DataTrusted {
		if !b.p.Opts.Trusted {
			evid.Fail(t, check+"-trust", rep, "data trusted although the issuer is not in the trust store")
		}
		if msg := readcheck.FilesEqualChip(b.p, &r.DocEx.Document); msg != "" && !(b.p.Cfg.OpenLDS && in.Garbled) {
			// (on a chip without access control a content-altering fault can change octets that nothing
			// authenticates; filesOK above has already required every data group to be exact under trust)
			evid.Fail(t, check+"-trust", rep, "data trusted although %s", msg)
		}
		got := readcheck.DocFiles(&r.DocEx.Document)
		if _, ok := got["SOD"]; !ok {
			evid.Fail(t, check+"-trust", rep, "data trusted without a security object")
		}
		// ... and the completeness check passed: DG14 / DG15 listed by the security object were obtained
		// (this also covers the partial result that accompanies a read error)
		for _, dg := range b.p.SODListed {
			if dg != 14 && dg != 15 {
				continue
			}
			if _, have := got[fmt.Sprintf("DG%d", dg)]; !have {
				evid.Fail(t, check+"-trust", rep, "data trusted although DG%d, listed in the security object, was not obtained (read error: %v)", dg, r.Err)
			}
		}
	}
	// 4. "the read ends with an error or with that step recorded as failed": a read that reports no
	// error after a fault changed what was delivered must either record a step as failed that the
	// fault-free read completed, or have absorbed the fault entirely (same files, same step
	// outcomes - a retry, or a damaged octet nobody depends on).  A result that silently lacks a
	// file or a step is a violation.  The one exception a reader cannot avoid: the status "file
	// not found" (6A82 / 6283) on a SELECT sent before any secure channel exists is
	// indistinguishable from a chip that does not store that file.
	if r.Err == nil && in.Changed {
		evid.Count("completed-despite-fault", 1)
		ok, failed := stepVector(&r.DocEx.Session)
		var newlyFailed, missingSteps, missingFiles []string
		for name, was := range b.steps {
			if was && !ok[name] {
				if failed[name] {
					newlyFailed = append(newlyFailed, name)
				} else {
					missingSteps = append(missingSteps, name)
				}
			}
		}
		got := readcheck.DocFiles(&r.DocEx.Document)
		for name := range b.files {
			if _, have := got[name]; !have {
				missingFiles = append(missingFiles, name)
			}
		}
		sort.Strings(newlyFailed)
		sort.Strings(missingSteps)
		sort.Strings(missingFiles)
		switch {
		case len(newlyFailed) > 0:
			evid.Count("fault-recorded-as-failed-step", 1)
		case len(missingFiles) == 0 && len(missingSteps) == 0:
			evid.Count("fault-absorbed", 1)
		case in.Absence && !contains(missingFiles, "DG14") && !contains(missingFiles, "DG15"):
			// (DG14 / DG15 are different: the security object lists them, so their absence IS visible
			// to the reader - the completeness check must record it)
			evid.Count("fault-indistinguishable-from-absent-file", 1)
		default:
			rep["missingFiles"], rep["stepsSilentlyMissing"] = missingFiles, missingSteps
			evid.Fail(t, check+"-silent", rep, "the read reports no error and no failed step, yet the result lacks files %v / steps %v that the fault-free read of the same chip delivers", missingFiles, missingSteps)
		}
	}
	if r.Err != nil {
		evid.Count("ended-with-error", 1)
	}
	return reached
}

// filesOK: every file in the result equals the chip's file.  EF.CardAccess is read
// before any secure channel exists: a content-altering fault on that read cannot be
// detected by any implementation at that point; then the bytes may differ, but data
// must not be trusted when DG14 was read (the completeness check compares them).
func filesOK(p *persona.Persona, r *readcheck.Result, in *injector) string {
	got := readcheck.DocFiles(&r.DocEx.Document)
	for name, b := range got {
		want, ok := p.Files[name]
		if name == "DIR" {
			continue
		}
		if ok && bytes.Equal(b, want) {
			continue
		}
		if name == "CardAccess" && in.Changed {
			if _, hasDG14 := got["DG14"]; hasDG14 && r.DocEx.Summary().DataTrusted {
				return "EF.CardAccess differs from the chip's file and DG14 was read, yet data is trusted"
			}
			continue
		}
		if p.Cfg.OpenLDS && in.Garbled && ok {
			// a chip without access control: responses carry no MAC, so a fault that alters content
			// but neither length nor framing is invisible to the read itself; passive authentication
			// is what catches it for the files the security object covers
			// (every octet of a data group is hashed; of EF.SOD only the signed parts are authenticated,
			// and EF.COM / EF.DIR are covered by nothing)
			covered := strings.HasPrefix(name, "DG")
			if covered && r.DocEx.Summary().DataTrusted {
				return fmt.Sprintf("file %s differs from the chip's file (unprotected read hit by a content-altering fault), yet data is trusted", name)
			}
			continue
		}
		if !ok {
			return fmt.Sprintf("result holds a file %s (%d bytes) the chip does not store", name, len(b))
		}
		return fmt.Sprintf("file %s differs from the chip's file (%d vs %d bytes)", name, len(b), len(want))
	}
	return ""
}

func contains(v []string, s string) bool {
	for _, e := range v {
		if e == s {
			return true
		}
	}
	return false
}

func planString(plan map[int]int) string {
	s := ""
	for k := 0; k < 100000 && len(s) < 400; k++ {
		if f, ok := plan[k]; ok {
			s += fmt.Sprintf("%d:%s ", k, faultKinds[f].name)
		}
	}
	return s
}

// TestSingleFaultEnumeration: every exchange index x every fault kind.
func TestSingleFaultEnumeration(t *testing.T) {
	cfgs := configs()
	idx := 0
	complete := true
	for _, c := range cfgs {
		b := faultFree(t, c)
		evid.Metric("fault-free-exchanges-"+c.name, b.exchanges)
		for k := 0; k < b.exchanges; k++ {
			for f := range faultKinds {
				if f == sweepKind {
					continue // parameterised kind of the byte sweep
				}
				idx++
				if !evid.MineIdx(idx) {
					continue
				}
				reached := runFaulted(t, c, b, map[int]int{k: f}, "single")
				evid.Case("single/"+c.name+"/"+faultKinds[f].name, reached, fmt.Sprintf("%s/%d/%d", c.name, k, f),
					map[string]any{"config": c.name, "exchange": k, "fault": faultKinds[f].name})
				if !reached {
					complete = false
					evid.Count("fault-index-not-reached", 1)
				}
			}
		}
	}
	evid.Exhaustive("single-fault-every-exchange-every-kind", complete)
}

// TestUnprotectedResponseByteSweep: on every exchange whose response travels without secure messaging
// (EF.CardAccess before the channel exists, everything on a chip without access control) EVERY octet of the
// response is damaged in turn (two bit patterns), not just the four positions of the fixed fault kinds.
func TestUnprotectedResponseByteSweep(t *testing.T) {
	cfgs := configs()
	idx := 0
	for _, c := range cfgs {
		b := faultFree(t, c)
		// the fault-free transcript tells which exchanges are unprotected and how long their responses are
		chip := b.p.NewChip()
		in := &injector{chip: chip, plan: map[int]int{}}
		if _, err := readcheck.Read(b.p, in, c.readOpts()); err != nil {
			evid.Infra(t, "transcript read: %v", err)
		}
		for k, ex := range chip.Transcript {
			if ex.Protected || len(ex.Rsp) < 3 || len(ex.Rsp) > 400 {
				continue
			}
			if c.o.Access == "NONE" && k > 12 && evid.Tier() == "quick" {
				break // quick: the first files of an open chip; thorough: all of them
			}
			for pos := 0; pos < len(ex.Rsp)-2; pos++ {
				for _, mask := range []byte{0x20, 0x01} {
					idx++
					if !evid.MineIdx(idx) {
						continue
					}
					sweepPos, sweepMask = pos, mask
					reached := runFaulted(t, c, b, map[int]int{k: sweepKind}, "sweep")
					evid.Case("sweep/"+c.name, reached, fmt.Sprintf("%s/%d/%d/%02x", c.name, k, pos, mask),
						map[string]any{"config": c.name, "exchange": k, "position": pos, "xor": mask, "response_len": len(ex.Rsp)})
				}
			}
		}
	}
}

// sweepKind is the index of the parameterised fault kind used by the byte sweep.
var (
	sweepKind = -1
	sweepPos  int
	sweepMask byte
	_         struct{} = func() struct{} {
		faultKinds = append(faultKinds, faultKind{name: "garbled-at-position", apply: func(g, prev []byte) []byte {
			o := append([]byte{}, g...)
			if sweepPos < len(o) {
				o[sweepPos] ^= sweepMask
			}
			return o
		}})
		sweepKind = len(faultKinds) - 1
		return struct{}{}
	}()
)

// TestMultiFaultSequences: random sequences of 2-5 faults.
func TestMultiFaultSequences(t *testing.T) {
	cfgs := configs()
	var bases []*baseline
	evid.RapidCheck(t, 2400, 60000, func(rt *rapid.T) {
		if bases == nil {
			for _, c := range cfgs {
				bases = append(bases, faultFree(t, c))
			}
		}
		ci := rapid.IntRange(0, len(cfgs)-1).Draw(rt, "config")
		b := bases[ci]
		n := rapid.IntRange(2, 5).Draw(rt, "faults")
		plan := map[int]int{}
		for i := 0; i < n; i++ {
			k := rapid.IntRange(0, b.exchanges+5).Draw(rt, "k")
			plan[k] = rapid.IntRange(0, len(faultKinds)-2).Draw(rt, "kind") // (the last kind belongs to the byte sweep)
		}
		reached := runFaulted(rt, cfgs[ci], b, plan, "multi")
		evid.Case("multi/"+cfgs[ci].name, true, fmt.Sprintf("%s/%s", cfgs[ci].name, planString(plan)), map[string]any{"config": cfgs[ci].name, "plan": planString(plan), "allReached": reached})
	})
}

// TestHostileRepeats: the same fault on every exchange from k on (a dead or babbling link).
func TestPersistentFaults(t *testing.T) {
	cfgs := configs()
	idx := 0
	for _, c := range cfgs {
		b := faultFree(t, c)
		for k := 0; k < b.exchanges; k += evid.Pick(3, 1) {
			for _, f := range []int{0, 2, 14, 16, 26, 27, 28} {
				idx++
				if !evid.MineIdx(idx) {
					continue
				}
				plan := map[int]int{}
				for j := k; j < 20*b.exchanges+1200; j++ {
					plan[j] = f
				}
				chip := b.p.NewChip()
				limit := 20*b.exchanges + 1100
				in := &injector{chip: chip, plan: plan, MaxCalls: limit}
				rep := map[string]any{"config": c.name, "from": k, "fault": faultKinds[f].name}
				r, err := readcheck.Read(b.p, in, c.readOpts())
				if err != nil {
					evid.Fail(t, "persistent-setup", rep, "%v", err)
				}
				evid.Case("persistent/"+c.name+"/"+faultKinds[f].name, true, fmt.Sprintf("%s/%d/%d", c.name, k, f), rep)
				if in.Exhausted {
					evid.Fail(t, "persistent-loop", rep, "read did not terminate within %d exchanges on a persistently faulty link", limit)
				}
				if r.DocEx != nil {
					if msg := readcheck.AgreesWithChip(chip, &r.DocEx.Session); msg != "" {
						evid.Fail(t, "persistent-steps", rep, "%s", msg)
					}
					if msg := filesOK(b.p, r, in); msg != "" {
						evid.Fail(t, "persistent-files", rep, "%s", msg)
					}
				}
			}
		}
	}
}

var _ = hex.EncodeToString
