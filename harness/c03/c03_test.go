// C03 — Secure messaging delivers only authenticated, in-sequence responses.
//
// Domain: session = (3DES | AES-128/192/256, KSenc, KSmac, initial SSC incl.
// values about to wrap) and a command history driven through
// iso7816.NfcSession.DoAPDU against a chip-side model built on the independent
// verifharness/ref/sm.  At a drawn step an adversary sits on the link: every
// single-bit flip, a byte substitution at every position, truncation at every
// length (enumerated for responses <= 300 bytes, sampled above), deletion /
// duplication / re-ordering of data objects, replay of every earlier genuine
// response, responses of other sessions / other counters, unprotected
// responses, changed outer status, extensions, random forgeries.  Every
// variant is presented to a library SecureMessaging in exactly the state the
// session has at that moment (SecureMessaging.Decode); one drawn variant is
// delivered through DoAPDU and the history then CONTINUES with the adversary
// still on the link (replays of everything seen so far, including a genuine
// response that was withheld).
//
// Oracle (DESIGN.md §4 C03): a genuine response yields exactly the chip's
// (data, SW) and leaves the library counter equal to the chip's.  Any other
// byte string: if Decode returns a value it must be the genuine (data, SW) of
// THIS exchange and the counter must again equal the chip's; for the classes in
// which authenticated content or mandatory framing necessarily changed
// (mutation, truncation, deletion, replay, other session / counter,
// unprotected, outer status, forgery) Decode must return an error.  Re-ordered
// / duplicated / extended / length-re-encoded responses may be accepted with
// the identical result (deliberate weakest reading, see DESIGN).
package c03

import (
	"bytes"
	"encoding/hex"
	"encoding/json"
	"fmt"
	"log/slog"
	"os"
	"runtime"
	"sync"
	"testing"

	"github.com/gmrtd/gmrtd/cryptoutils"
	"github.com/gmrtd/gmrtd/iso7816"
	"github.com/gmrtd/gmrtd/tlv"
	"pgregory.net/rapid"

	"verifharness/evid"
	"verifharness/ref/mac"
	"verifharness/ref/sm"
)

const prop = "C03"

// F14: a data-less ("naked") response makes Decode step the counter BACK, so
// the genuine response that the adversary withheld is accepted as the answer
// to the NEXT command.
const f14 = "F14-naked-status-rewinds-ssc"

func TestMain(m *testing.M) {
	slog.SetDefault(slog.New(slog.DiscardHandler))
	evid.Main(m, prop)
}

func TestAASelfTest(t *testing.T) {
	if err := sm.SelfTest(); err != nil {
		evid.Infra(t, "reference self-test failed: %v", err)
	}
}

// ---------------------------------------------------------------- resource guard
//
// gmrtd's TLV reader allocates the CLAIMED length of a data object before it
// looks at how many bytes are left (finding F7 of C12: 84 7f ff ff ff => 2 GiB).
// A mutated length octet therefore costs up to 4 GiB of address space and a GC
// cycle per presented response, which makes eight parallel shards crawl.  That
// is C12's subject, not C03's.  While the library behaves like that (decided
// by a deterministic probe of bytes allocated), responses in which some data
// object on the library's parse path claims more than hugeClaim bytes beyond
// what is left are presented only hugeBudget times per process (never above
// hugeNever); the rest is counted and skipped.  Such a response cannot be accepted by any TLV reader.

const hugeClaim = 256 << 10
const hugeBudget = 4
const hugeNever = 64 << 20 // claims above this are never presented while the guard is on

var (
	guardOnce   sync.Once
	guardActive bool
	hugeMu      sync.Mutex
	hugeSeen    int
)

func guardOn() bool {
	guardOnce.Do(func() {
		var a, b runtime.MemStats
		runtime.ReadMemStats(&a)
		tlv.Decode([]byte{0x87, 0x83, 0x20, 0x00, 0x00, 0x01}) // claims 2 MiB, holds 1 byte
		runtime.ReadMemStats(&b)
		guardActive = b.TotalAlloc-a.TotalAlloc > 1<<20
	})
	return guardActive
}

// maxOverclaim walks b the way a BER-TLV reader does and returns the claimed
// length of the first data object that claims more than is left (0 if none).
func maxOverclaim(b []byte, depth int) int {
	for i := 0; i < len(b) && depth < 60; {
		t0 := b[i]
		i++
		tagLen := 1
		if t0&0x1F == 0x1F {
			for {
				if i >= len(b) || tagLen >= 4 {
					return 0
				}
				c := b[i]
				i++
				tagLen++
				if c&0x80 == 0 {
					break
				}
			}
		}
		if i >= len(b) {
			return 0
		}
		l := int(b[i])
		i++
		switch {
		case l == 0x80:
			if t0&0x20 == 0 {
				return 0
			}
			return maxOverclaim(b[i:], depth+1)
		case l > 0x84:
			return 0
		case l > 0x80:
			k := l - 0x80
			if i+k > len(b) {
				return 0
			}
			l = 0
			for j := 0; j < k; j++ {
				l = l<<8 | int(b[i+j])
			}
			i += k
		}
		if t0 == 0 && tagLen == 1 && l == 0 {
			return 0
		}
		if l > len(b)-i {
			return l
		}
		if t0&0x20 != 0 {
			if c := maxOverclaim(b[i:i+l], depth+1); c > 0 {
				return c
			}
		}
		i += l
	}
	return 0
}

// admit says whether the response is presented (true) or skipped by the guard.
func admit(r []byte) bool {
	if !guardOn() || len(r) < 3 {
		return true
	}
	claim := maxOverclaim(r[:len(r)-2], 0)
	if claim <= hugeClaim {
		return true
	}
	hugeMu.Lock()
	defer hugeMu.Unlock()
	hugeSeen++
	if hugeSeen <= hugeBudget && claim <= hugeNever {
		evid.Count("huge-length-claim-presented", 1)
		return true
	}
	evid.Count("huge-length-claim-skipped(C12-F7-guard)", 1)
	return false
}

// ---------------------------------------------------------------- presenting one response

// present is the replayable unit: a library SecureMessaging state (after the
// command was encoded) plus a byte string handed to Decode, plus what the chip
// really answered.
type present struct {
	Alg        string `json:"alg"`
	KEnc       string `json:"kenc"`
	KMac       string `json:"kmac"`
	SSC        string `json:"ssc_before_decode"`
	Rsp        string `json:"rsp"`
	HasGenuine bool   `json:"has_genuine"`
	GenRsp     string `json:"genuine_rsp"`
	GenData    string `json:"genuine_data"`
	GenSW      uint16 `json:"genuine_sw"`
	ModelSSC   string `json:"chip_ssc_after"`
	Class      string `json:"class"`
	Pos        int    `json:"pos"`
	MustErr    bool   `json:"must_err"`
	// GenuineOptional: the session already returned an error to the caller, so
	// a later genuine exchange is not required to succeed (DESIGN C03 oracle).
	GenuineOptional bool `json:"genuine_optional,omitempty"`
}

func libAlg(c mac.Cipher) cryptoutils.BlockCipherAlg {
	if c == mac.TDES {
		return cryptoutils.TDES
	}
	return cryptoutils.AES
}

func newLib(c mac.Cipher, kenc, kmac, ssc []byte) (*iso7816.SecureMessaging, error) {
	l, err := iso7816.NewSecureMessaging(libAlg(c), bytes.Clone(kenc), bytes.Clone(kmac))
	if err != nil {
		return nil, err
	}
	if err := l.SetSSC(ssc); err != nil {
		return nil, err
	}
	return l, nil
}

func unhex(s string) []byte {
	b, err := hex.DecodeString(s)
	if err != nil {
		panic(err)
	}
	return b
}

// checkPresent applies the oracle to one presented response; "" = held.
func checkPresent(p present) (msg string) {
	lib, err := newLib(mac.Cipher(p.Alg), unhex(p.KEnc), unhex(p.KMac), unhex(p.SSC))
	if err != nil {
		return "cannot build library session: " + err.Error()
	}
	rsp := unhex(p.Rsp)
	var out *iso7816.RApdu
	func() {
		defer func() {
			if r := recover(); r != nil {
				msg = fmt.Sprintf("Decode panicked: %v", r)
			}
		}()
		out, err = lib.Decode(bytes.Clone(rsp))
	}()
	if msg != "" {
		return msg
	}
	return judge(p, out, err, lib.SSC())
}

// judge is shared by the Decode path and the DoAPDU path.
func judge(p present, out *iso7816.RApdu, err error, sscAfter []byte) string {
	genuine := p.HasGenuine && p.Rsp == p.GenRsp
	if genuine {
		if err != nil {
			if p.GenuineOptional {
				return ""
			}
			return "genuine response rejected: " + err.Error()
		}
		if out == nil || out.Status != p.GenSW || !bytes.Equal(out.Data, unhex(p.GenData)) {
			return fmt.Sprintf("genuine response decoded to %v, chip sent data %s sw %04x", out, p.GenData, p.GenSW)
		}
		if hex.EncodeToString(sscAfter) != p.ModelSSC {
			return fmt.Sprintf("counter after a genuine exchange is %x, chip has %s", sscAfter, p.ModelSSC)
		}
		return ""
	}
	if err != nil {
		return ""
	}
	if out == nil {
		return "Decode returned (nil, nil)"
	}
	if !p.HasGenuine {
		return fmt.Sprintf("%s: a response was accepted (%s) for an exchange the chip did not authenticate", p.Class, out)
	}
	if out.Status != p.GenSW || !bytes.Equal(out.Data, unhex(p.GenData)) {
		return fmt.Sprintf("%s@%d: adversarial response accepted with DIFFERENT content %s (genuine data %s sw %04x)", p.Class, p.Pos, out, p.GenData, p.GenSW)
	}
	if p.MustErr {
		return fmt.Sprintf("%s@%d: adversarial response accepted (content equals the genuine one, but this class must be refused)", p.Class, p.Pos)
	}
	if hex.EncodeToString(sscAfter) != p.ModelSSC {
		return fmt.Sprintf("%s@%d: accepted, but counter is %x and the chip has %s", p.Class, p.Pos, sscAfter, p.ModelSSC)
	}
	return ""
}

// ---------------------------------------------------------------- variants

type variant struct {
	class   string
	pos     int
	r       []byte
	mustErr bool
}

type genuineRec struct {
	rsp []byte
	ctr []byte // counter the response is authenticated under
}

type advCtx struct {
	cipher     mac.Cipher
	kenc, kmac []byte
	sscEnc     []byte // library counter after Encode (= counter of the command)
	data       []byte
	sw         uint16
	do85       bool
	parts      sm.ResponseParts
	earlier    []genuineRec
	seed       []byte // drawn bytes steering substitutions / insertions
	full       bool   // enumerate every position
}

func (c *advCtx) seedByte(i int) byte { return c.seed[i%len(c.seed)] }

func cat(bs ...[]byte) []byte {
	var out []byte
	for _, b := range bs {
		out = append(out, b...)
	}
	return out
}

func swb(sw uint16) []byte { return []byte{byte(sw >> 8), byte(sw)} }

// nonMinimal re-encodes the length of a data object with one more octet.
func nonMinimal(do []byte) []byte {
	dos, err := sm.SplitDOs(do)
	if err != nil || len(dos) != 1 {
		return nil
	}
	v := dos[0].Value
	var l []byte
	switch {
	case len(v) < 0x80:
		l = []byte{0x81, byte(len(v))}
	case len(v) < 0x100:
		l = []byte{0x82, 0, byte(len(v))}
	default:
		l = []byte{0x83, 0, byte(len(v) >> 8), byte(len(v))}
	}
	return cat([]byte{dos[0].Tag}, l, v)
}

// positions returns the indices to visit: all of 0..n-1 when full, otherwise
// the first and last 24 plus a stride through the middle steered by the seed.
func (c *advCtx) positions(n int) []int {
	if c.full || n <= 96 {
		out := make([]int, n)
		for i := range out {
			out[i] = i
		}
		return out
	}
	var out []int
	for i := 0; i < 24; i++ {
		out = append(out, i)
	}
	step := (n - 48) / 48
	if step < 1 {
		step = 1
	}
	for i := 24 + int(c.seedByte(0))%step; i < n-24; i += step {
		out = append(out, i)
	}
	for i := n - 24; i < n; i++ {
		out = append(out, i)
	}
	return out
}

func (c *advCtx) variants() []variant {
	g := c.parts.Bytes()
	sw := swb(c.sw)
	var vs []variant
	add := func(class string, pos int, r []byte, must bool) {
		if bytes.Equal(r, g) {
			return
		}
		vs = append(vs, variant{class, pos, r, must})
	}
	// 1. single-bit flips, 2. byte substitutions
	for _, i := range c.positions(len(g)) {
		for b := 0; b < 8; b++ {
			r := bytes.Clone(g)
			r[i] ^= 1 << uint(b)
			add("bitflip", i*8+b, r, true)
		}
		r := bytes.Clone(g)
		r[i] += 1 + c.seedByte(i+1)%255
		add("bytesub", i, r, true)
		if i%3 == 0 { // classic substitutes
			for _, v := range []byte{0x00, 0xFF, 0x80} {
				if g[i] != v {
					r := bytes.Clone(g)
					r[i] = v
					add("bytesub", i, r, true)
				}
			}
		}
	}
	// 3. truncation at every length
	for _, n := range c.positions(len(g)) {
		add("truncate", n, bytes.Clone(g[:n]), true)
	}
	// truncation of the body that keeps the outer status
	body := g[:len(g)-2]
	for _, n := range c.positions(len(body)) {
		add("truncate-keep-sw", n, cat(body[:n], sw), true)
	}
	// 4. deletion
	p := c.parts
	if p.DOData != nil {
		add("del-do87", 0, cat(p.DO99, p.DO8E, sw), true)
		add("del-do87-do99", 0, cat(p.DO8E, sw), true)
	}
	add("del-do99", 0, cat(p.DOData, p.DO8E, sw), true)
	add("del-do8e", 0, cat(p.DOData, p.DO99, sw), true)
	add("del-do99-do8e", 0, cat(p.DOData, sw), true)
	// 5. duplication (genuine copies)
	dos := [][]byte{}
	if p.DOData != nil {
		dos = append(dos, p.DOData)
	}
	dos = append(dos, p.DO99, p.DO8E)
	for i, d := range dos {
		for at := 0; at <= len(dos); at++ {
			var parts [][]byte
			parts = append(parts, dos[:at]...)
			parts = append(parts, d)
			parts = append(parts, dos[at:]...)
			add("dup-do", i*4+at, cat(cat(parts...), sw), false)
		}
	}
	// forged copies next to the genuine object
	if p.DOData != nil {
		f := bytes.Clone(p.DOData)
		f[len(f)-1] ^= 1 + c.seedByte(3)%255
		add("dup-forged-do87-first", 0, cat(f, p.DOData, p.DO99, p.DO8E, sw), false)
		add("dup-forged-do87-after", 0, cat(p.DOData, f, p.DO99, p.DO8E, sw), false)
		add("dup-forged-do87-last", 0, cat(p.DOData, p.DO99, p.DO8E, f, sw), false)
		other := byte(0x85)
		if c.do85 {
			other = 0x87
		}
		f2 := bytes.Clone(p.DOData)
		f2[0] = other
		add("add-other-data-tag-first", 0, cat(f2, p.DOData, p.DO99, p.DO8E, sw), false)
		add("add-other-data-tag-after", 0, cat(p.DOData, f2, p.DO99, p.DO8E, sw), false)
	}
	for k, osw := range c.otherSWs() {
		f99 := cat([]byte{0x99, 0x02}, swb(osw))
		add("dup-forged-do99-first", k, cat(p.DOData, f99, p.DO99, p.DO8E, swb(osw)), false)
		add("dup-forged-do99-first-genuine-sw", k, cat(p.DOData, f99, p.DO99, p.DO8E, sw), false)
		add("dup-forged-do99-after", k, cat(p.DOData, p.DO99, f99, p.DO8E, swb(osw)), false)
		add("dup-forged-do99-last", k, cat(p.DOData, p.DO99, p.DO8E, f99, swb(osw)), false)
		// 10. outer status changed
		add("outer-sw", k, cat(p.DOData, p.DO99, p.DO8E, swb(osw)), true)
		// status forged inside and outside
		add("forged-do99-and-sw", k, cat(p.DOData, f99, p.DO8E, swb(osw)), true)
	}
	// 6. re-ordering: every permutation but the identity
	permute(len(dos), func(idx []int) {
		ident := true
		var parts [][]byte
		for i, j := range idx {
			ident = ident && i == j
			parts = append(parts, dos[j])
		}
		if !ident {
			code := 0
			for _, j := range idx {
				code = code*4 + j
			}
			add("reorder", code, cat(cat(parts...), sw), false)
		}
	})
	// 7. replay of earlier genuine responses of this session
	for i, e := range c.earlier {
		add("replay", i, bytes.Clone(e.rsp), true)
		if len(e.rsp) >= 2 {
			add("replay-current-sw", i, cat(e.rsp[:len(e.rsp)-2], sw), true)
		}
	}
	// 8. other sessions / other counters
	flip := func(k []byte) []byte {
		o := bytes.Clone(k)
		// never the least significant bit: DES ignores it (parity), which would
		// make the "other" key the same key
		o[int(c.seedByte(5))%len(o)] ^= 2 << (c.seedByte(6) % 7)
		return o
	}
	mk := func(kenc, kmac, ctrBefore []byte) []byte {
		return sm.New(c.cipher, kenc, kmac, ctrBefore).WrapResponse(c.data, c.sw, c.do85)
	}
	add("cross-session-both-keys", 0, mk(flip(c.kenc), flip(c.kmac), c.sscEnc), true)
	add("cross-session-kmac", 0, mk(c.kenc, flip(c.kmac), c.sscEnc), true)
	for k, delta := range []int{-3, -2, -1, 1, 2, 3} { // authenticated under a neighbouring counter
		ctr := bytes.Clone(c.sscEnc)
		if delta > 0 {
			ctr = sm.SSCPlus(ctr, delta)
		} else {
			ctr = sscMinus(ctr, -delta)
		}
		add("other-counter", k, mk(c.kenc, c.kmac, ctr), true)
	}
	for i := range c.sscEnc { // counter differing in one octet only (carry / truncation bugs)
		ctr := bytes.Clone(c.sscEnc)
		ctr[i] ^= 1 << (c.seedByte(7+i) % 8)
		if i == len(ctr)-1 {
			ctr[i] = c.sscEnc[i] ^ 0x80
		}
		add("other-counter-octet", i, mk(c.kenc, c.kmac, ctr), true)
	}
	add("counter-zero", 0, mk(c.kenc, c.kmac, make([]byte, len(c.sscEnc))), true)
	// MAC computed without any counter / over the wrong framing
	{
		noSSC := mac.MAC8(c.cipher, c.kmac, cat(p.DOData, p.DO99))
		add("mac-without-ssc", 0, cat(p.DOData, p.DO99, sm.EncodeDO(0x8E, noSSC), sw), true)
		if p.DOData != nil { // MAC that ignores the data object
			only99 := mac.MAC8(c.cipher, c.kmac, cat(sm.SSCPlus(c.sscEnc, 1), p.DO99))
			add("mac-over-do99-only", 0, cat(p.DOData, p.DO99, sm.EncodeDO(0x8E, only99), sw), true)
		}
		// MAC that ignores the status object: status can then be chosen freely
		for k, osw := range c.otherSWs() {
			onlyData := mac.MAC8(c.cipher, c.kmac, cat(sm.SSCPlus(c.sscEnc, 1), p.DOData))
			add("mac-over-data-only", k, cat(p.DOData, []byte{0x99, 0x02}, swb(osw), sm.EncodeDO(0x8E, onlyData), swb(osw)), true)
		}
	}
	// what-if forgeries: correctly keyed, but structurally not what 9303-11 allows.  A lax
	// verifier accepts them; an attacker without the key cannot build them, a faulty chip can.
	{
		ctr1 := sm.SSCPlus(c.sscEnc, 1)
		// (a) no DO99 at all, MAC valid over SSC || DO87
		noSt := mac.MAC8(c.cipher, c.kmac, cat(ctr1, p.DOData))
		add("valid-mac-no-do99", 0, cat(p.DOData, sm.EncodeDO(0x8E, noSt), sw), true)
		for k, osw := range c.otherSWs() {
			add("valid-mac-no-do99-other-sw", k, cat(p.DOData, sm.EncodeDO(0x8E, noSt), swb(osw)), true)
		}
		// (b) DO99 of the wrong length, MAC valid
		for k, st := range [][]byte{{byte(c.sw >> 8)}, {byte(c.sw >> 8), byte(c.sw), 0x00}, {}} {
			do99 := sm.EncodeDO(0x99, st)
			m := mac.MAC8(c.cipher, c.kmac, cat(ctr1, p.DOData, do99))
			add("valid-mac-bad-do99-length", k, cat(p.DOData, do99, sm.EncodeDO(0x8E, m), sw), true)
		}
		// (c) a second, correctly encrypted cryptogram with OTHER plaintext next to the genuine one
		other := bytes.Clone(c.data)
		if len(other) == 0 {
			other = []byte{0x6F, 0x00}
		} else {
			other[0] ^= 0x01 + c.seedByte(20)&0x7E
		}
		alt := sm.New(c.cipher, c.kenc, c.kmac, c.sscEnc).WrapResponseParts(other, c.sw, c.do85).DOData
		if p.DOData != nil {
			add("second-valid-cryptogram-first", 0, cat(alt, p.DOData, p.DO99, p.DO8E, sw), false)
			add("second-valid-cryptogram-after", 0, cat(p.DOData, alt, p.DO99, p.DO8E, sw), false)
			add("second-valid-cryptogram-last", 0, cat(p.DOData, p.DO99, p.DO8E, alt, sw), false)
			// the other data-object tag, correctly encrypted
			alt2 := sm.New(c.cipher, c.kenc, c.kmac, c.sscEnc).WrapResponseParts(other, c.sw, !c.do85).DOData
			add("second-valid-cryptogram-other-tag-first", 0, cat(alt2, p.DOData, p.DO99, p.DO8E, sw), false)
			add("second-valid-cryptogram-other-tag-after", 0, cat(p.DOData, alt2, p.DO99, p.DO8E, sw), false)
		} else {
			// genuine response has no data: an unauthenticated cryptogram is added
			add("added-valid-cryptogram-first", 0, cat(alt, p.DO99, p.DO8E, sw), false)
			add("added-valid-cryptogram-after", 0, cat(p.DO99, alt, p.DO8E, sw), false)
			add("added-valid-cryptogram-last", 0, cat(p.DO99, p.DO8E, alt, sw), false)
		}
		// (d) a second DO99 / DO8E pair that is valid for another status, placed after the genuine pair
		for k, osw := range c.otherSWs() {
			q := sm.New(c.cipher, c.kenc, c.kmac, c.sscEnc).WrapResponseParts(c.data, osw, c.do85)
			add("second-valid-status-pair-after", k, cat(p.DOData, p.DO99, p.DO8E, q.DO99, q.DO8E, swb(osw)), false)
			add("second-valid-status-pair-first", k, cat(p.DOData, q.DO99, q.DO8E, p.DO99, p.DO8E, sw), false)
		}
	}
	// 9. unprotected responses
	add("unprotected-sw-only", 0, bytes.Clone(sw), true)
	add("unprotected-9000", 0, []byte{0x90, 0x00}, true)
	add("unprotected-data-sw", 0, cat(c.data, sw), true)
	add("unprotected-data-9000", 0, cat(c.data, []byte{0x90, 0x00}), true)
	add("unprotected-do99-only", 0, cat(p.DO99, sw), true)
	add("empty", 0, []byte{}, true)
	// 11. extension
	junk := []byte{c.seedByte(8), c.seedByte(9), c.seedByte(10)}
	add("extend-body-0000", 0, cat(body, []byte{0, 0}, sw), false)
	add("extend-body-junk", 0, cat(body, junk[:1+int(c.seedByte(11))%3], sw), false)
	add("extend-body-unknown-do", 0, cat(body, []byte{0x80 | c.seedByte(12)&0x1E, 0x01, c.seedByte(13)}, sw), false)
	add("extend-front-unknown-do", 0, cat([]byte{0x81, 0x01, c.seedByte(13)}, body, sw), false)
	add("extend-tail-sw", 0, cat(g, sw), false)
	add("extend-tail-9000", 0, cat(g, []byte{0x90, 0x00}), false)
	add("extend-tail-junk", 0, cat(g, junk), false)
	// 12. non-minimal length encodings
	for i, d := range dos {
		if nm := nonMinimal(d); nm != nil {
			var parts [][]byte
			parts = append(parts, dos[:i]...)
			parts = append(parts, nm)
			parts = append(parts, dos[i+1:]...)
			add("nonminimal-length", i, cat(cat(parts...), sw), false)
		}
	}
	// 13. forgeries without the key
	add("forged-mac-zero", 0, cat(p.DOData, p.DO99, sm.EncodeDO(0x8E, make([]byte, 8)), sw), true)
	add("forged-mac-short", 0, cat(p.DOData, p.DO99, sm.EncodeDO(0x8E, p.DO8E[2:9]), sw), true)
	add("forged-mac-empty", 0, cat(p.DOData, p.DO99, []byte{0x8E, 0x00}, sw), true)
	add("forged-mac-long", 0, cat(p.DOData, p.DO99, sm.EncodeDO(0x8E, cat(p.DO8E[2:], []byte{0})), sw), true)
	return vs
}

func (c *advCtx) otherSWs() []uint16 {
	cand := []uint16{0x9000, c.sw ^ 1, c.sw ^ 0x8000, uint16(c.seedByte(14))<<8 | uint16(c.seedByte(15)), 0x6982, 0x0000}
	var out []uint16
	for _, s := range cand {
		dup := s == c.sw
		for _, o := range out {
			dup = dup || o == s
		}
		if !dup {
			out = append(out, s)
		}
	}
	return out
}

func sscMinus(b []byte, n int) []byte {
	out := bytes.Clone(b)
	for k := 0; k < n; k++ {
		for i := len(out) - 1; i >= 0; i-- {
			out[i]--
			if out[i] != 0xFF {
				break
			}
		}
	}
	return out
}

func permute(n int, f func([]int)) {
	idx := make([]int, n)
	used := make([]bool, n)
	var rec func(k int)
	rec = func(k int) {
		if k == n {
			f(idx)
			return
		}
		for i := 0; i < n; i++ {
			if !used[i] {
				used[i], idx[k] = true, i
				rec(k + 1)
				used[i] = false
			}
		}
	}
	rec(0)
}

// ---------------------------------------------------------------- generators

var swGen = rapid.OneOf(
	rapid.Just(uint16(0x9000)),
	rapid.SampledFrom([]uint16{0x9000, 0x6982, 0x6A82, 0x6A86, 0x6282, 0x6283, 0x6300, 0x6700, 0x6B00, 0x6C10, 0x6100, 0x6988, 0x6F00, 0x0000, 0xFFFF, 0x9001, 0x8E08, 0x9902}),
	rapid.Uint16(),
)

var rspLenGen = rapid.OneOf(
	rapid.Just(0),
	rapid.IntRange(1, 24),
	rapid.SampledFrom([]int{1, 7, 8, 9, 15, 16, 17, 31, 32, 33, 110, 111, 112, 113, 117, 118, 119, 120, 121, 125, 126, 127, 128, 223, 224, 231, 232, 239, 240, 248, 255, 256}),
	rapid.IntRange(0, 300),
	rapid.IntRange(0, 2048),
)

// data whose tail looks like padding, to stress unpadding
func drawData(rt *rapid.T, n int, label string) []byte {
	if n == 0 {
		return nil
	}
	d := rapid.SliceOfN(rapid.Byte(), n, n).Draw(rt, label)
	switch rapid.IntRange(0, 5).Draw(rt, label+"-tail") {
	case 0:
		d[n-1] = 0x80
	case 1:
		d[n-1] = 0x00
		if n > 1 {
			d[n-2] = 0x80
		}
	case 2:
		for i := range d {
			d[i] = 0
		}
	}
	return d
}

func drawSSC(rt *rapid.T, n int) []byte {
	switch rapid.IntRange(0, 3).Draw(rt, "ssc-kind") {
	case 0: // within 4 of the wrap
		s := bytes.Repeat([]byte{0xFF}, n)
		s[n-1] = byte(0xFF - rapid.IntRange(0, 4).Draw(rt, "ssc-to-wrap"))
		return s
	case 1: // carry chain in the low octets
		s := rapid.SliceOfN(rapid.Byte(), n, n).Draw(rt, "ssc")
		k := rapid.IntRange(1, n-1).Draw(rt, "ssc-carry")
		for i := n - k; i < n; i++ {
			s[i] = 0xFF
		}
		s[n-1] = byte(0xFF - rapid.IntRange(0, 3).Draw(rt, "ssc-low"))
		return s
	case 2:
		return make([]byte, n)
	}
	return rapid.SliceOfN(rapid.Byte(), n, n).Draw(rt, "ssc")
}

type cmd struct {
	ins, p1, p2 byte
	data        []byte
	ne          int
}

func drawCmd(rt *rapid.T, label string) cmd {
	c := cmd{
		ins: rapid.SampledFrom([]byte{0xB0, 0xA4, 0x22, 0x84, 0x86, 0x88, 0x82, 0xB1, 0x2A, 0xCA}).Draw(rt, label+"-ins"),
		p1:  rapid.Byte().Draw(rt, label+"-p1"), p2: rapid.Byte().Draw(rt, label+"-p2"),
		ne: rapid.SampledFrom([]int{0, 0, 1, 4, 8, 223, 255, 256}).Draw(rt, label+"-ne"),
	}
	c.data = drawData(rt, rapid.SampledFrom([]int{0, 0, 1, 2, 7, 8, 15, 16, 17, 40}).Draw(rt, label+"-nc"), label+"-data")
	return c
}

func bucket(n int) string {
	switch {
	case n == 0:
		return "0"
	case n <= 16:
		return "1-16"
	case n <= 128:
		return "17-128"
	case n <= 300:
		return "129-300"
	}
	return ">300"
}

// ---------------------------------------------------------------- the link

// link implements iso7816.Transceiver.  hook is called with the bytes the
// library hands to the reader and returns the bytes "received".
type link struct {
	hook  func(capdu []byte) []byte
	sent  int
	naked int // data-less responses (status word only) delivered so far: the input class of F14
}

func (l *link) Transceive(cla, ins, p1, p2 int, data []byte, le int, encoded []byte) []byte {
	l.sent++
	r := l.hook(encoded)
	if len(r) == 2 {
		l.naked++
	}
	return r
}

type world struct {
	rt         *rapid.T
	cipher     mac.Cipher
	kenc, kmac []byte
	chip       *sm.Session // nil once the chip has dropped the session
	nfc        *iso7816.NfcSession
	lk         *link
	earlier    []genuineRec
	f14open    bool
	hadError   bool // DoAPDU already returned an error in this session
	kept       []keptPlain
}

// keptPlain is plaintext that DoAPDU handed to the caller earlier in the session: the property says
// the caller never gets "different plaintext" - that includes plaintext changing under its hands later.
type keptPlain struct {
	got, want []byte
}

// keep records a delivered result; stale reports a kept result that has changed since.
func (w *world) keep(out *iso7816.RApdu, err error) {
	if err == nil && out != nil && len(out.Data) > 0 && len(w.kept) < 32 {
		w.kept = append(w.kept, keptPlain{out.Data, bytes.Clone(out.Data)})
	}
}

func (w *world) stale() string {
	for i, k := range w.kept {
		if !bytes.Equal(k.got, k.want) {
			return fmt.Sprintf("the plaintext delivered by an earlier exchange of this session (#%d, %x) was changed by a later exchange (now %x)", i+1, k.want, k.got)
		}
	}
	return ""
}

func (w *world) libSSC() []byte { return w.nfc.SM().SSC() }

func (w *world) base(class string, pos int, r []byte, must bool) present {
	return present{Alg: string(w.cipher), KEnc: hex.EncodeToString(w.kenc), KMac: hex.EncodeToString(w.kmac),
		SSC: hex.EncodeToString(w.libSSC()), Rsp: hex.EncodeToString(r), Class: class, Pos: pos, MustErr: must}
}

// chipAnswer lets the chip model process a protected command.  It returns the
// genuine response parts, or ok=false when the chip cannot authenticate the
// command (it then drops the session and answers 6988 in the clear).
func (w *world) chipAnswer(capdu []byte, intended cmd, data []byte, sw uint16) (parts sm.ResponseParts, ok bool, why string) {
	if w.chip == nil {
		return parts, false, "session already dropped"
	}
	u, err := w.chip.UnwrapCommand(capdu)
	if err != nil {
		w.chip = nil
		return parts, false, err.Error()
	}
	if u.INS != intended.ins || u.P1 != intended.p1 || u.P2 != intended.p2 || !bytes.Equal(u.Data, intended.data) || u.Ne != intended.ne {
		w.chip = nil
		return parts, false, fmt.Sprintf("chip decrypted a different command: %+v", u)
	}
	parts = w.chip.WrapResponseParts(data, sw, intended.ins&1 == 1)
	return parts, true, ""
}

func record(class string, r []byte, w *world, n int, pos int) {
	nontrivial := false
	if len(r) >= 2 {
		_, err := sm.SplitDOs(r[:len(r)-2])
		nontrivial = err == nil && len(r) > 2
	}
	evid.CaseFn(class, nontrivial, fmt.Sprintf("%d|%s|%s", pos, w.cipher, bucket(n)), func() any {
		return map[string]any{"alg": string(w.cipher), "kenc": hex.EncodeToString(w.kenc), "kmac": hex.EncodeToString(w.kmac),
			"ssc_before_response": hex.EncodeToString(w.libSSC()), "presented_response": evid.Hex(r), "position": pos, "genuine_data_len": n}
	})
}

// ---------------------------------------------------------------- the property

func TestSessions(t *testing.T) {
	f14open := evid.Open(prop, f14)
	evid.RapidCheck(t, 3000, 50000, func(rt *rapid.T) {
		cipher := rapid.SampledFrom(mac.Ciphers).Draw(rt, "cipher")
		w := &world{rt: rt, cipher: cipher, f14open: f14open}
		w.kenc = rapid.SliceOfN(rapid.Byte(), cipher.KeyLen(), cipher.KeyLen()).Draw(rt, "kenc")
		w.kmac = rapid.SliceOfN(rapid.Byte(), cipher.KeyLen(), cipher.KeyLen()).Draw(rt, "kmac")
		ssc0 := drawSSC(rt, cipher.BlockLen())
		lib, err := newLib(cipher, w.kenc, w.kmac, ssc0)
		if err != nil {
			evid.Infra(rt, "NewSecureMessaging: %v", err)
		}
		w.chip = sm.New(cipher, w.kenc, w.kmac, ssc0)
		w.lk = &link{}
		w.nfc = iso7816.NewNfcSession(w.lk)
		w.nfc.SetSecureMessaging(lib)

		// --- phase 1: genuine exchanges
		nGenuine := rapid.IntRange(0, 4).Draw(rt, "genuine-steps")
		for i := 0; i < nGenuine; i++ {
			w.genuineExchange(fmt.Sprintf("g%d", i))
		}
		// --- phase 2: the adversarial step
		delivered, wasErr := w.adversarialExchange()
		// --- phase 3: the history continues with the adversary on the link
		nMore := rapid.IntRange(0, 3).Draw(rt, "more-steps")
		for i := 0; i < nMore; i++ {
			delivered, wasErr = w.continuedExchange(fmt.Sprintf("c%d", i), delivered, wasErr)
		}
	})
}

func (w *world) genuineExchange(label string) {
	rt := w.rt
	c := drawCmd(rt, label)
	data := drawData(rt, rspLenGen.Draw(rt, label+"-rlen"), label+"-rdata")
	sw := swGen.Draw(rt, label+"-sw")
	var p present
	w.lk.hook = func(capdu []byte) []byte {
		parts, ok, why := w.chipAnswer(capdu, c, data, sw)
		if !ok {
			evid.Fail(rt, "chip-rejects-command", map[string]any{"capdu": hex.EncodeToString(capdu), "why": why}, "chip model cannot authenticate a command of a healthy session: %s", why)
		}
		g := parts.Bytes()
		p = w.base("genuine", 0, g, false)
		p.HasGenuine, p.GenRsp, p.GenData, p.GenSW, p.ModelSSC = true, p.Rsp, hex.EncodeToString(data), sw, hex.EncodeToString(w.chip.SSC)
		w.earlier = append(w.earlier, genuineRec{g, bytes.Clone(w.chip.SSC)})
		return g
	}
	sentBefore := w.lk.sent
	out, err := w.nfc.DoAPDU(iso7816.NewCApdu(0x00, c.ins, c.p1, c.p2, c.data, c.ne), label)
	if msg := w.stale(); msg != "" {
		evid.Fail(w.rt, "stale-plaintext", nil, "%s", msg)
	}
	w.keep(out, err)
	if w.lk.sent != sentBefore+1 {
		evid.Fail(rt, "doapdu-transmissions", nil, "DoAPDU transmitted %d times", w.lk.sent-sentBefore)
	}
	evid.CaseFn("genuine", len(data) > 0 || sw != 0x9000, fmt.Sprintf("%s|%s|%04x", w.cipher, bucket(len(data)), sw), func() any { return p })
	if msg := judge(p, out, err, w.libSSC()); msg != "" {
		evid.Fail(rt, "genuine", p, "%s", msg)
	}
}

// adversarialExchange: the command reaches the chip (or is blocked), the
// adversary computes every variant of the genuine response, each is presented
// to a copy of the library state, one is delivered for real.
func (w *world) adversarialExchange() (delivered present, wasErr bool) {
	rt := w.rt
	c := drawCmd(rt, "adv")
	data := drawData(rt, rspLenGen.Draw(rt, "adv-rlen"), "adv-rdata")
	sw := swGen.Draw(rt, "adv-sw")
	seed := rapid.SliceOfN(rapid.Byte(), 32, 32).Draw(rt, "adv-seed")
	blocked := rapid.IntRange(0, 9).Draw(rt, "adv-blocked") == 0
	w.lk.hook = func(capdu []byte) []byte {
		if blocked {
			// the command never reaches the chip; the adversary answers with a bare status
			nsw := swGen.Draw(rt, "blocked-sw")
			delivered = w.base("blocked-naked", 0, swb(nsw), true)
			record("blocked-naked", swb(nsw), w, 0, 0)
			return swb(nsw)
		}
		sscEnc := w.libSSC()
		parts, ok, why := w.chipAnswer(capdu, c, data, sw)
		if !ok {
			evid.Fail(rt, "chip-rejects-command", map[string]any{"capdu": hex.EncodeToString(capdu), "why": why}, "chip model cannot authenticate a command of a healthy session: %s", why)
		}
		g := parts.Bytes()
		ctx := &advCtx{cipher: w.cipher, kenc: w.kenc, kmac: w.kmac, sscEnc: sscEnc, data: data, sw: sw, do85: c.ins&1 == 1,
			parts: parts, earlier: w.earlier, seed: seed, full: len(g) <= 300}
		vs := ctx.variants()
		// drawn forgeries
		vs = append(vs, variant{"random-bytes", 0, rapid.SliceOfN(rapid.Byte(), 0, 40).Draw(rt, "random-rsp"), true})
		vs = append(vs, variant{"random-tlv", 0, drawRandomTLV(rt, sw), true})
		mk := func(v variant) present {
			p := w.base(v.class, v.pos, v.r, v.mustErr)
			p.HasGenuine, p.GenRsp, p.GenData, p.GenSW, p.ModelSSC = true, hex.EncodeToString(g), hex.EncodeToString(data), sw, hex.EncodeToString(w.chip.SSC)
			return p
		}
		// the genuine response itself, on a copy
		gp := mk(variant{"genuine", 0, g, false})
		if msg := checkPresent(gp); msg != "" {
			evid.Fail(rt, "genuine", gp, "%s", msg)
		}
		for _, v := range vs {
			if bytes.Equal(v.r, g) {
				continue
			}
			if !admit(v.r) {
				continue
			}
			p := mk(v)
			record(v.class, v.r, w, len(data), v.pos)
			if msg := checkPresent(p); msg != "" {
				evid.Fail(rt, "adversarial", p, "%s", msg)
			}
		}
		evid.Count("responses-presented", int64(len(vs)))
		// withheld genuine response: the adversary keeps it for later
		w.earlier = append(w.earlier, genuineRec{g, bytes.Clone(w.chip.SSC)})
		// deliver one variant for real (favouring the structurally interesting ones)
		var pick variant
		if rapid.Bool().Draw(rt, "deliver-structural") {
			var st []variant
			for _, v := range vs {
				if v.class != "bitflip" && v.class != "bytesub" && v.class != "truncate" && v.class != "truncate-keep-sw" {
					st = append(st, v)
				}
			}
			pick = st[rapid.IntRange(0, len(st)-1).Draw(rt, "deliver-idx")]
		} else {
			pick = vs[rapid.IntRange(0, len(vs)-1).Draw(rt, "deliver-idx")]
		}
		if bytes.Equal(pick.r, g) || (guardOn() && len(pick.r) > 2 && maxOverclaim(pick.r[:len(pick.r)-2], 0) > hugeClaim) {
			pick = variant{"unprotected-sw-only", 0, swb(sw), true}
		}
		delivered = mk(pick)
		return pick.r
	}
	out, err := w.nfc.DoAPDU(iso7816.NewCApdu(0x00, c.ins, c.p1, c.p2, c.data, c.ne), "adversarial")
	if msg := w.stale(); msg != "" {
		evid.Fail(w.rt, "stale-plaintext", nil, "%s", msg)
	}
	w.keep(out, err)
	delivered.Class = "delivered:" + delivered.Class
	evid.Case("delivered-via-DoAPDU", true, delivered.Class+"|"+string(w.cipher), nil)
	if msg := judge(delivered, out, err, w.libSSC()); msg != "" {
		evid.Fail(rt, "adversarial-doapdu", delivered, "%s", msg)
	}
	w.hadError = w.hadError || err != nil
	return delivered, err != nil
}

// continuedExchange: the caller goes on using the session.  The chip model
// says whether it can still authenticate the command; the adversary offers the
// chip's genuine answer (if any), a bare status and every response it has seen.
func (w *world) continuedExchange(label string, prev present, prevErr bool) (delivered present, wasErr bool) {
	rt := w.rt
	c := drawCmd(rt, label)
	data := drawData(rt, rspLenGen.Draw(rt, label+"-rlen"), label+"-rdata")
	sw := swGen.Draw(rt, label+"-sw")
	choice := rapid.IntRange(0, 1<<20).Draw(rt, label+"-deliver")
	w.lk.hook = func(capdu []byte) []byte {
		sscEnc := w.libSSC()
		expectCtr := sm.SSCPlus(sscEnc, 1) // counter the library will verify the response under
		parts, ok, _ := w.chipAnswer(capdu, c, data, sw)
		var g []byte
		mk := func(class string, pos int, r []byte, must bool) present {
			p := w.base(class, pos, r, must)
			p.GenuineOptional = w.hadError
			if ok {
				p.HasGenuine, p.GenRsp, p.GenData, p.GenSW, p.ModelSSC = true, hex.EncodeToString(g), hex.EncodeToString(data), sw, hex.EncodeToString(w.chip.SSC)
			}
			return p
		}
		var cands []present
		if ok {
			g = parts.Bytes()
			cands = append(cands, mk("later-genuine", 0, g, false))
			evid.Count("continued-chip-in-sync", 1)
		} else {
			evid.Count("continued-chip-dropped-session", 1)
		}
		cands = append(cands, mk("later-naked-6988", 0, []byte{0x69, 0x88}, true))
		for i, e := range w.earlier {
			if ok && bytes.Equal(e.rsp, g) {
				continue
			}
			if bytes.Equal(e.ctr, expectCtr) {
				// an earlier genuine response authenticated under exactly the counter the
				// library now expects: only possible after the counter was stepped back.
				// F14 covers the rewind caused by a data-less response and nothing else:
				// if no such response was delivered in this session the replay must be refused.
				if w.f14open && w.lk.naked > 0 {
					evid.Excluded(f14)
					continue
				}
				evid.Count("continued-replay-under-expected-counter", 1)
				cands = append(cands, mk("later-replay-rewound", i, e.rsp, true))
				continue
			}
			cands = append(cands, mk("later-replay", i, e.rsp, true))
		}
		for _, p := range cands {
			record(p.Class, unhex(p.Rsp), w, len(data), p.Pos)
			if msg := checkPresent(p); msg != "" {
				evid.Fail(rt, "continued", p, "%s", msg)
			}
		}
		evid.Count("responses-presented", int64(len(cands)))
		if ok {
			w.earlier = append(w.earlier, genuineRec{g, bytes.Clone(w.chip.SSC)})
		}
		delivered = cands[choice%len(cands)]
		return unhex(delivered.Rsp)
	}
	out, err := w.nfc.DoAPDU(iso7816.NewCApdu(0x00, c.ins, c.p1, c.p2, c.data, c.ne), label)
	if msg := w.stale(); msg != "" {
		evid.Fail(w.rt, "stale-plaintext", nil, "%s", msg)
	}
	w.keep(out, err)
	delivered.Class = "delivered:" + delivered.Class
	evid.Case("delivered-via-DoAPDU", true, delivered.Class+"|"+string(w.cipher), nil)
	if msg := judge(delivered, out, err, w.libSSC()); msg != "" {
		evid.Fail(rt, "continued-doapdu", delivered, "%s", msg)
	}
	if err == nil {
		evid.Count("continued-exchange-accepted", 1)
	} else if delivered.Class == "delivered:later-genuine" {
		evid.Count("continued-genuine-rejected", 1)
	}
	w.hadError = w.hadError || err != nil
	return delivered, err != nil
}

func drawRandomTLV(rt *rapid.T, sw uint16) []byte {
	n := rapid.IntRange(1, 4).Draw(rt, "rtlv-n")
	var out []byte
	for i := 0; i < n; i++ {
		tag := rapid.SampledFrom([]byte{0x87, 0x85, 0x99, 0x8E, 0x8E, 0x80, 0x97}).Draw(rt, "rtlv-tag")
		var v []byte
		switch tag {
		case 0x99:
			v = swb(sw)
		case 0x8E:
			v = rapid.SliceOfN(rapid.Byte(), 8, 8).Draw(rt, "rtlv-mac")
		case 0x87, 0x85:
			v = append([]byte{0x01}, rapid.SliceOfN(rapid.Byte(), 8, 32).Draw(rt, "rtlv-ct")...)
		default:
			v = rapid.SliceOfN(rapid.Byte(), 0, 4).Draw(rt, "rtlv-v")
		}
		out = append(out, sm.EncodeDO(tag, v)...)
	}
	return append(out, swb(sw)...)
}

// ---------------------------------------------------------------- deterministic parts

type kat struct {
	cipher     mac.Cipher
	kenc, kmac string
	ssc        string // library counter before Decode
	rsp        string
	data       string
	sw         uint16
}

var kats = []kat{
	{mac.TDES, "979EC13B1CBFE9DCD01AB0FED307EAE5", "F1CB1F1FB5ADF208806B89DC579DC1F8", "887022120C06C227", "990290008E08FA855A5D4C50A8ED9000", "", 0x9000},
	{mac.TDES, "979EC13B1CBFE9DCD01AB0FED307EAE5", "F1CB1F1FB5ADF208806B89DC579DC1F8", "887022120C06C229", "8709019FF0EC34F9922651990290008E08AD55CC17140B2DED9000", "60145F01", 0x9000},
	{mac.TDES, "979EC13B1CBFE9DCD01AB0FED307EAE5", "F1CB1F1FB5ADF208806B89DC579DC1F8", "887022120C06C22B", "871901FB9235F4E4037F2327DCC8964F1F9B8C30F42C8E2FFF224A990290008E08C8B2787EAEA07D749000", "04303130365F36063034303030305C026175", 0x9000},
	{mac.AES128, "a8e85e938514ec67ae33cda3d43d3c48", "27f1adeb705a049a305b0c619b14b9b3", "00000000000000000000000000000003", "871101d688d27a6d16f03619e76dcb59c1f1ec990290008e08b7df9a5982bb17299000", "", 0x9000},
}

// TestExamplesEverySubstitution: the ICAO 9303-11 D.4 responses and a recorded
// AES response — all 255 substitutions at every byte position, every
// truncation, every insertion of one byte.
func TestExamplesEverySubstitution(t *testing.T) {
	idx := 0
	for ki, k := range kats {
		g := unhex(k.rsp)
		data := k.data
		if k.cipher == mac.AES128 {
			// plaintext of the recorded response, obtained with the reference
			d, _, err := sm.New(k.cipher, unhex(k.kenc), unhex(k.kmac), unhex(k.ssc)).UnwrapResponse(g)
			if err != nil {
				evid.Infra(t, "reference cannot open the recorded AES response: %v", err)
			}
			data = hex.EncodeToString(d)
		}
		p := present{Alg: string(k.cipher), KEnc: k.kenc, KMac: k.kmac, SSC: k.ssc, HasGenuine: true, GenRsp: hex.EncodeToString(g), GenData: data, GenSW: k.sw,
			ModelSSC: hex.EncodeToString(sm.SSCPlus(unhex(k.ssc), 1))}
		try := func(class string, pos int, r []byte, must bool) {
			if !admit(r) {
				return
			}
			q := p
			q.Class, q.Pos, q.Rsp, q.MustErr = class, pos, hex.EncodeToString(r), must
			evid.Case("example-"+class, true, fmt.Sprintf("%d|%d|%x", ki, pos, r[:min(len(r), 4)]), nil)
			if msg := checkPresent(q); msg != "" {
				evid.Fail(t, "examples", q, "%s", msg)
			}
		}
		try("genuine", 0, g, false)
		for i := range g {
			idx++
			if !evid.MineIdx(idx) { // byte positions are dealt round-robin to the shards
				continue
			}
			for v := 0; v < 256; v++ {
				if byte(v) != g[i] {
					r := bytes.Clone(g)
					r[i] = byte(v)
					try("bytesub", i*256+v, r, true)
				}
			}
			try("truncate", i, g[:i], true)
			// deleting one octet / inserting one octet
			try("delete-octet", i, cat(g[:i], g[i+1:]), true)
			for _, v := range []byte{0x00, 0x80, 0xFF, g[i]} {
				r := cat(g[:i], []byte{v}, g[i:])
				// an inserted 00 00-like filler can only be harmless at a DO boundary; the universal oracle applies
				try("insert-octet", i*4+int(v&3), r, false)
			}
		}
	}
	evid.Exhaustive("examples-every-byte-substitution", true)
}

// rewindScenario reproduces F14: C1 reaches the chip, its genuine response R1
// is withheld and a bare status is delivered; the caller sends C2, which the
// chip cannot authenticate; R1 is presented as the answer to C2.
// It returns a description when the library ACCEPTS R1.
func rewindScenario(cipher mac.Cipher) (string, present) {
	ke, km := make([]byte, cipher.KeyLen()), make([]byte, cipher.KeyLen())
	for i := range ke {
		ke[i], km[i] = byte(i+1), byte(0x40+i)
	}
	ssc := make([]byte, cipher.BlockLen())
	lib, _ := newLib(cipher, ke, km, ssc)
	chip := sm.New(cipher, ke, km, ssc)
	lk := &link{}
	nfc := iso7816.NewNfcSession(lk)
	nfc.SetSecureMessaging(lib)
	var r1 []byte
	lk.hook = func(capdu []byte) []byte {
		if _, err := chip.UnwrapCommand(capdu); err != nil {
			panic("chip rejects C1: " + err.Error())
		}
		r1 = chip.WrapResponse(nil, 0x9000, false) // chip: "MSE:Set AT accepted"
		return []byte{0x6A, 0x80}                  // adversary withholds it
	}
	if _, err := nfc.DoAPDU(iso7816.NewCApdu(0, 0x22, 0x41, 0xA4, []byte{1, 2, 3}, 0), "C1"); err == nil {
		return "bare status accepted", present{}
	}
	var p present
	chipOK := true
	lk.hook = func(capdu []byte) []byte {
		_, err := chip.UnwrapCommand(capdu)
		chipOK = err == nil
		p = present{Alg: string(cipher), KEnc: hex.EncodeToString(ke), KMac: hex.EncodeToString(km), SSC: hex.EncodeToString(nfc.SM().SSC()),
			Rsp: hex.EncodeToString(r1), Class: "later-replay-rewound", MustErr: true}
		return r1
	}
	out, err := nfc.DoAPDU(iso7816.NewCApdu(0, 0x22, 0x41, 0xA4, []byte{9, 9, 9}, 0), "C2")
	if chipOK {
		return "", p // harness expectation broken: chip still in sync
	}
	if err == nil {
		return fmt.Sprintf("after a bare status 6A80 the counter went back to %s; the withheld genuine response to C1 (%x) was then accepted as the answer to C2, which the chip refused: %s", p.SSC, r1, out), p
	}
	return "", p
}

// TestFindingF14 is the probe (while the finding is open) and the regression
// test (once it is fixed).
func TestFindingF14(t *testing.T) {
	if evid.Shard() != 0 {
		return
	}
	for _, c := range mac.Ciphers {
		msg, p := rewindScenario(c)
		if evid.Open(prop, f14) {
			if msg != "" {
				evid.ReportKnown(prop, f14, "SecureMessaging.Decode steps the SSC back on a data-less response, so a withheld genuine response is accepted for the next command: "+msg)
			}
			continue
		}
		if msg != "" {
			evid.Fail(t, "regression-F14", p, "%s", msg)
		}
	}
}

// TestReplayJSON re-executes a saved JSON repro (./verif replay C03 <file>).
func TestReplayJSON(t *testing.T) {
	path := os.Getenv("VERIF_REPLAY_JSON")
	if path == "" {
		return
	}
	b, err := os.ReadFile(path)
	if err != nil {
		t.Fatalf("read: %v", err)
	}
	var doc struct {
		Check string  `json:"check"`
		Case  present `json:"case"`
	}
	if err := json.Unmarshal(b, &doc); err != nil {
		t.Fatalf("parse: %v", err)
	}
	if doc.Case.Alg == "" {
		t.Fatalf("repro of check %q carries no presentable case", doc.Check)
	}
	doc.Case.Class = trimDelivered(doc.Case.Class)
	if msg := checkPresent(doc.Case); msg != "" {
		t.Fatalf("VIOLATION reproduced: %s", msg)
	}
}

func trimDelivered(s string) string {
	const p = "delivered:"
	if len(s) > len(p) && s[:len(p)] == p {
		return s[len(p):]
	}
	return s
}
