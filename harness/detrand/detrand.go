// Package detrand replaces crypto/rand.Reader by a deterministic stream for
// the duration of one generated case, so that every random value the library
// draws (RND.IFD, K.IFD, PACE/CA ephemeral scalars, AA challenge) is a pure
// function of a rapid-drawn seed: shrinkable and replayable.
package detrand

import (
	"crypto/rand"
	"crypto/sha256"
	"encoding/binary"
	"io"
	"sync"
)

type Stream struct {
	mu   sync.Mutex
	seed []byte
	ctr  uint64
	buf  []byte
	Read_ int // bytes handed out so far
}

func New(seed []byte) *Stream { return &Stream{seed: append([]byte{}, seed...)} }

func (s *Stream) Read(p []byte) (int, error) {
	s.mu.Lock()
	defer s.mu.Unlock()
	for i := range p {
		if len(s.buf) == 0 {
			var c [8]byte
			binary.BigEndian.PutUint64(c[:], s.ctr)
			s.ctr++
			h := sha256.Sum256(append(append([]byte{}, s.seed...), c[:]...))
			s.buf = h[:]
		}
		p[i] = s.buf[0]
		s.buf = s.buf[1:]
	}
	s.Read_ += len(p)
	return len(p), nil
}

// Bytes returns n bytes from the stream.
func (s *Stream) Bytes(n int) []byte {
	b := make([]byte, n)
	s.Read(b)
	return b
}

// Install makes crypto/rand.Reader a fresh deterministic stream derived from
// seed and returns a function restoring the previous reader.
func Install(seed []byte) (restore func()) {
	old := rand.Reader
	rand.Reader = New(seed)
	return func() { rand.Reader = old }
}

var _ io.Reader = (*Stream)(nil)
