package c09

import (
	"encoding/hex"
	"encoding/json"
	"os"
	"testing"

	"verifharness/issuer"
)

// TestDumpReplaySample writes a replay JSON of a VALID case (to the path in
// VERIF_DUMP_REPLAY) so that the replay path can be exercised by hand.
func TestDumpReplaySample(t *testing.T) {
	path := os.Getenv("VERIF_DUMP_REPLAY")
	if path == "" {
		return
	}
	c := f12Case()
	c.CSCASig = issuer.PKCS1("sha256")
	c.Extra, c.Enc, c.EncForms = 4, encIndefinite, map[string]int{issuer.LvSignedData: 1}
	w, err := build(c, issuer.NewSeedSource("replay-sample"))
	if err != nil {
		t.Fatal(err)
	}
	b, _ := json.Marshal(map[string]any{"check": "profiles", "case": map[string]any{"case": c, "seed": "replay-sample",
		"sod": hex.EncodeToString(w.sod.DER), "store": hexList(w.store), "dgs": hexMap(w.docDGs)}})
	os.WriteFile(path, b, 0o644)
}
