package c09

import (
	"fmt"
	"testing"

	"verifharness/evid"
	"verifharness/issuer"
	"verifharness/ref/der"
)

// TestExtras examines profiles that are plausible in the field but that the
// property does NOT list as supported.  Their outcome is recorded as a metric
// ("accepted" / the library's error) and never fails the check.
func TestExtras(t *testing.T) {
	if evid.Shard() != 0 {
		return
	}
	base := func() Case {
		return Case{Country: "NL", CSCAKey: issuer.ECExplicit("brainpoolP256r1"), DSKey: issuer.ECExplicit("brainpoolP256r1"),
			CSCASig: issuer.ECDSA("sha256"), DSSig: issuer.ECDSA("sha256"), LDSHash: "sha256", SigningTime: true, Era: 2, Layout: "TD3", SerialLen: 8}
	}
	type extra struct {
		name string
		mk   func() (*world, error)
	}
	rsaBase := func() Case {
		c := base()
		c.CSCAKey, c.DSKey, c.CSCASig, c.DSSig = issuer.RSA(2048, 0), issuer.RSA(2048, 1), issuer.PKCS1("sha256"), issuer.PKCS1("sha256")
		return c
	}
	extras := []extra{
		{"ec-explicit-without-cofactor (X9.62 allows, ICAO 9303-12 requires the cofactor)", func() (*world, error) {
			c := base()
			c.DSKey = issuer.KeySpec{Type: "ec", Curve: "brainpoolP256r1", Explicit: true}
			return build(c, issuer.NewSeedSource("x1"))
		}},
		{"pss-mgf1-digest-differs-from-signature-digest", func() (*world, error) {
			c := rsaBase()
			c.CSCASig = issuer.SigAlg{Scheme: "pss", Hash: "sha256", SaltLen: 32, MGFHash: "sha1"}
			return build(c, issuer.NewSeedSource("x2"))
		}},
		{"outer-tag-77-indefinite-length", func() (*world, error) {
			c := base()
			c.Enc, c.EncForms = encIndefinite, map[string]int{issuer.LvOuter77: 1}
			return build(c, issuer.NewSeedSource("x3"))
		}},
		{"validity-as-GeneralizedTime-before-2050 (RFC 5280 requires UTCTime)", func() (*world, error) {
			c := base()
			w, err := build(c, issuer.NewSeedSource("x4"))
			if err != nil {
				return nil, err
			}
			p := w.pki.Profile
			p.TimeForm = issuer.TimeGeneralized
			pki, err := issuer.NewPKI(issuer.NewSeedSource("x4b"), p)
			if err != nil {
				return nil, err
			}
			sod, err := pki.SignSODDetailed(w.docDGs, issuer.SODOptions{})
			if err != nil {
				return nil, err
			}
			return &world{pki: pki, sod: sod, docDGs: w.docDGs, store: [][]byte{pki.CSCA.DER}, acceptable: [][]byte{pki.CSCA.DER}}, nil
		}},
		{"ds-aki-with-authorityCertIssuer-and-serial (ICAO 9303-12: optional fields)", func() (*world, error) {
			c := base()
			w, err := build(c, issuer.NewSeedSource("x5"))
			if err != nil {
				return nil, err
			}
			p := w.pki.Profile
			var pki *issuer.PKI
			p.DSMutate = func(dt *issuer.CertTemplate) {
				dt.AKIExtra, dt.AKIIssuerName, dt.AKISerial = true, dt.Issuer, pki.CSCA.Tmpl.Serial
			}
			// NewPKI issues the DS itself; build in two steps so the hook can see the CSCA
			p2 := p
			p2.DSMutate = nil
			pki, err = issuer.NewPKI(issuer.NewSeedSource("x5b"), p2)
			if err != nil {
				return nil, err
			}
			ds, err := pki.IssueDS(pki.DSKey, pki.DS.Tmpl.Subject, p.DSMutate)
			if err != nil {
				return nil, err
			}
			pki.DS = ds
			sod, err := pki.SignSODDetailed(w.docDGs, issuer.SODOptions{})
			if err != nil {
				return nil, err
			}
			return &world{pki: pki, sod: sod, docDGs: w.docDGs, store: [][]byte{pki.CSCA.DER}, acceptable: [][]byte{pki.CSCA.DER}}, nil
		}},
		{"sid-issuer-retyped-as-T61String", func() (*world, error) {
			c := base()
			c.Extra, c.SIDVariant = 1, issuer.NameVariant{Retype: true, Type: issuer.T61}
			return build(c, issuer.NewSeedSource("x6"))
		}},
		{"signed-attributes-absent (signature over the eContent)", func() (*world, error) {
			c := base()
			w, err := build(c, issuer.NewSeedSource("x7"))
			if err != nil {
				return nil, err
			}
			o := issuer.SODOptions{}
			o.Mutate = func(s *issuer.CMSSpec) { s.Signers[0].NoSignedAttrs = true }
			if w.sod, err = w.pki.SignSODDetailed(w.docDGs, o); err != nil {
				return nil, err
			}
			return w, nil
		}},
		{"v1-lds-security-object-with-UTF8-version-strings", func() (*world, error) {
			c := base()
			w, err := build(c, issuer.NewSeedSource("x8"))
			if err != nil {
				return nil, err
			}
			o := issuer.SODOptions{}
			o.Mutate = func(s *issuer.CMSSpec) {
				s.EContent = der.Seq(der.IntFromInt64(1), issuer.HashAlgID("sha256", true),
					der.Seq(der.Seq(der.IntFromInt64(1), der.OctetString(issuer.Digest("sha256", w.docDGs[1]))), der.Seq(der.IntFromInt64(2), der.OctetString(make([]byte, 32)))),
					der.Seq(der.UTF8("0108"), der.UTF8("040000")))
			}
			if w.sod, err = w.pki.SignSODDetailed(w.docDGs, o); err != nil {
				return nil, err
			}
			return w, nil
		}},
	}
	for _, e := range extras {
		res := func() (res string) {
			defer func() {
				if r := recover(); r != nil {
					res = fmt.Sprintf("PANIC: %v", r)
				}
			}()
			w, err := e.mk()
			if err != nil {
				return "generator: " + err.Error()
			}
			if m := verdict(w); m != "" {
				if len(m) > 300 {
					m = m[:300]
				}
				return "rejected: " + m
			}
			return "accepted"
		}()
		evid.Metric("extra/"+e.name, res)
		t.Logf("EXTRA %-70s %s", e.name, res)
	}
}
