package c09

import (
	"encoding/hex"
	"os"
	"path/filepath"
	"testing"

	"verifharness/issuer"
)

// TestDumpF12 writes the minimal F12 reproduction (hex files) to the directory
// named by VERIF_DUMP_F12; it does nothing in a normal run.
func TestDumpF12(t *testing.T) {
	dir := os.Getenv("VERIF_DUMP_F12")
	if dir == "" {
		return
	}
	w, err := build(f12Case(), issuer.NewSeedSource("c09-f12"))
	if err != nil {
		t.Fatal(err)
	}
	os.MkdirAll(dir, 0o755)
	put := func(name string, b []byte) {
		if err := os.WriteFile(filepath.Join(dir, name), []byte(hex.EncodeToString(b)+"\n"), 0o644); err != nil {
			t.Fatal(err)
		}
	}
	put("F12-csca.cer.hex", w.pki.CSCA.DER)
	put("F12-ds.cer.hex", w.pki.DS.DER)
	put("F12-sod.bin.hex", w.sod.DER)
	put("F12-dg1.bin.hex", w.docDGs[1])
	os.WriteFile(filepath.Join(dir, "F12-verdict.txt"), []byte(verdict(w)+"\n"), 0o644)
}
