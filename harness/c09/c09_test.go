// C09 — Genuine security objects verify for every supported algorithm profile.
//
// Generator: verifharness/issuer (independent PKI + CMS generator; signs with
// its own RSA/EMSA code and ref/ecc).  Oracle: a document issued correctly
// under a profile the property names must pass passiveauth.PassiveAuth and
// cms.SignedData.Verify, and the returned chain must be [our DS certificate, an
// acceptable trust anchor].
package c09

import (
	"bytes"
	"encoding/hex"
	"encoding/json"
	"fmt"
	"math/big"
	"os"
	"sort"
	"strings"
	"testing"
	"time"

	"github.com/gmrtd/gmrtd/cms"
	"github.com/gmrtd/gmrtd/document"
	"github.com/gmrtd/gmrtd/passiveauth"
	"pgregory.net/rapid"

	"verifharness/evid"
	"verifharness/issuer"
	"verifharness/lds"
	"verifharness/ref/der"
	"verifharness/ref/ecc"
)

const prop = "C09"

func TestMain(m *testing.M) { evid.Main(m, prop) }

// F12: an RSASSA-PSS certificate signature whose parameters are DER encoded
// (DEFAULT values omitted) with hash SHA-1 cannot be parsed.
const f12 = "F12-pss-der-default-params"

// ---------------------------------------------------------------- sources

type rapidSrc struct{ t *rapid.T }

func (r rapidSrc) Bytes(n int) []byte {
	return rapid.SliceOfN(rapid.Byte(), n, n).Draw(r.t, "rnd")
}
func (r rapidSrc) Intn(n int) int {
	if n <= 1 {
		return 0
	}
	return rapid.IntRange(0, n-1).Draw(r.t, "int")
}

// chooser abstracts "draw a choice": rapid in properties, SeedSource in the
// deterministic matrix enumeration and in replays.
type chooser interface {
	issuer.Source
	Bool(label string) bool
	Pick(label string, n int) int // uniform in [0,n)
	// Weighted picks index i with probability w[i]/sum(w).
	Weighted(label string, w ...int) int
}

type rapidChooser struct{ rapidSrc }

func (c rapidChooser) Bool(l string) bool       { return rapid.Bool().Draw(c.t, l) }
func (c rapidChooser) Pick(l string, n int) int { return rapid.IntRange(0, n-1).Draw(c.t, l) }
func (c rapidChooser) Weighted(l string, w ...int) int {
	sum := 0
	for _, x := range w {
		sum += x
	}
	v := rapid.IntRange(0, sum-1).Draw(c.t, l)
	for i, x := range w {
		if v < x {
			return i
		}
		v -= x
	}
	return len(w) - 1
}

type seedChooser struct{ *issuer.SeedSource }

func (c seedChooser) Bool(string) bool         { return c.Intn(2) == 1 }
func (c seedChooser) Pick(_ string, n int) int { return c.Intn(n) }
func (c seedChooser) Weighted(_ string, w ...int) int {
	sum := 0
	for _, x := range w {
		sum += x
	}
	v := c.Intn(sum)
	for i, x := range w {
		if v < x {
			return i
		}
		v -= x
	}
	return len(w) - 1
}

// ---------------------------------------------------------------- the profile

var eras = []time.Time{
	time.Date(2000, 1, 1, 0, 0, 0, 0, time.UTC),
	time.Date(2012, 3, 4, 5, 6, 7, 0, time.UTC),
	time.Date(2024, 6, 1, 12, 0, 0, 0, time.UTC),
	time.Date(2049, 12, 31, 23, 59, 59, 0, time.UTC), // last UTCTime instant; notAfter values beyond are GeneralizedTime
	time.Date(2050, 1, 1, 0, 0, 0, 0, time.UTC),      // first GeneralizedTime instant
	time.Date(2051, 7, 8, 9, 10, 11, 0, time.UTC),
}

var eTypes = []string{issuer.OidLDSSecurityObject, issuer.OidLDSSecurityObjectLegacy, issuer.OidLDSSecurityObjectSdu, issuer.OidData}

const (
	storeSingle = iota
	storeExpiredTwinFirst
	storeNotYetTwinFirst
	storeCollisionFirst
	storeLinkOnly
	storeOldThenLink
	storeLinkThenNew
	storeForeignFirst
	storeAmongOthers
	nStores
)

var storeNames = []string{"single", "expired-twin-first", "notyet-twin-first", "ski-collision-first", "link-only", "old+link", "link+new", "foreign-same-ski-first", "among-others"}

const (
	encDER = iota
	encIndefinite
	encNonMinimal
	encMixed
)

var encNames = []string{"der", "indefinite", "non-minimal", "mixed"}

// Case is one matrix point plus its neutral variations.  Everything a run needs
// besides key material / nonces is in here, so it doubles as the JSON repro.
type Case struct {
	Country          string
	CSCAKey, DSKey   issuer.KeySpec
	CSCASig, DSSig   issuer.SigAlg
	LDSHash          string
	SID              int // 0 issuerAndSerial, 1 subjectKeyIdentifier
	LDSVersion       int
	SigningTime      bool
	Era              int
	DSWin, CSCAWin   int // 0 loose, 1 notBefore=t, 2 notAfter=t, 3 both
	Enc              int
	EncForms         map[string]int // level -> 0 minimal, 1 indefinite, 2.. non-minimal with k = v-2
	SIDVariant       issuer.NameVariant
	NameStyle        int // 0 printable, 1 utf8, 2 bmp CN, 3 multi-valued RDN + extra attributes, 4 an attribute type repeated in separate RDNs (two OUs)
	PoolKind         int // trust store object: 0 one pool via Add, 1 grown via AddCerts after a lookup, 2 CombinedCertPool of two pools, 3 the same with a lookup in between
	HashOrder        int // data group hash list: 0 ascending, 1 descending, 2 rotated, 3 highest first
	CardSecOwn       int // EF.CardSecurity: 0 signed like the SOD; 1 / 2 signed 400 days earlier / later by a DS certificate of its own whose validity does not contain the SOD's signing time
	Extra            int // 0 none, 1 CSCA, 2 DS2 after, 3 DS2 before, 4 CSCA + DS2
	Store            int
	CardSec          bool
	EType            int
	AttrOrder        int
	ExtraSigned      bool
	Unsigned         bool
	DigestNull       bool
	HashNull         bool
	Layout           string
	DGs              []int // data groups in the hash list AND loaded into the document
	HashOnly         []int // data groups in the hash list only (not read)
	NoDG1            bool
	DSNoSKI          bool
	DSSKIStyle       int // 0 = hash of the key (the usual method); 1-4 = other octet strings (RFC 5280 4.2.1.2: any unique value): 04 12 .., 04 06 .., 30 12 .., one octet
	CSCANoAKI        bool
	CSCANoPathLen    bool
	DSMoreExtensions bool
	SerialLen        int
}

func (c Case) key() string {
	return fmt.Sprintf("%s|%s|%s|%s|%s|sid%d|v%d|st%v|era%d|w%d%d|%s|%s|x%d|ct%d|ns%d", c.CSCAKey, c.CSCASig, c.DSKey, c.DSSig, c.LDSHash,
		c.SID, c.LDSVersion, c.SigningTime, c.Era, c.DSWin, c.CSCAWin, encNames[c.Enc], storeNames[c.Store], c.Extra, c.EType, c.NameStyle)
}

func inF12(c Case) bool {
	return c.CSCASig.Scheme == "pss" && c.CSCASig.OmitDefaults && c.CSCASig.Hash == "sha1"
}

// ---------------------------------------------------------------- drawing

var curveNames = func() []string {
	var n []string
	for _, c := range ecc.Curves() {
		n = append(n, c.Name)
	}
	return n
}()

func drawKeySpec(ch chooser, label string, fastBias bool) issuer.KeySpec {
	if fastBias && ch.Weighted(label+"-fast", 45, 55) == 0 {
		switch ch.Pick(label+"-fastkind", 4) {
		case 0:
			return issuer.ECNamed("P-256")
		case 1:
			return issuer.ECExplicit("P-256")
		case 2:
			return issuer.RSA(2048, ch.Pick(label+"-idx", 3))
		default:
			return issuer.ECExplicit("brainpoolP256r1")
		}
	}
	if ch.Weighted(label+"-type", 35, 65) == 0 {
		bits := issuer.RSASizes[ch.Pick(label+"-bits", len(issuer.RSASizes))]
		return issuer.RSA(bits, ch.Pick(label+"-idx", 3))
	}
	s := issuer.KeySpec{Type: "ec", Curve: curveNames[ch.Pick(label+"-curve", len(curveNames))]}
	switch ch.Pick(label+"-form", 3) {
	case 1:
		s.Explicit, s.Cofactor = true, true
	case 2:
		s.Explicit, s.Cofactor, s.Seed = true, true, true
	}
	return s
}

func drawSigAlg(ch chooser, label string, spec issuer.KeySpec, forSignerInfo bool) issuer.SigAlg {
	h := issuer.Hashes[ch.Pick(label+"-hash", 5)]
	if spec.Type == "ec" {
		return issuer.ECDSA(h)
	}
	if ch.Bool(label + "-pss") {
		a := issuer.SigAlg{Scheme: "pss", Hash: h}
		max := issuer.MaxPSSSalt(spec.Bits, h)
		hl := issuer.HashLen(h)
		switch ch.Pick(label+"-salt", 4) {
		case 0:
			a.SaltLen = 0
		case 1:
			a.SaltLen = hl
		case 2:
			a.SaltLen = max
		default:
			a.SaltLen = 20
		}
		if a.SaltLen > max {
			a.SaltLen = max
		}
		a.OmitDefaults = ch.Bool(label + "-der")
		if !a.OmitDefaults {
			a.ExplicitTrailer = ch.Weighted(label+"-trailer", 4, 1) == 1
		}
		return a
	}
	a := issuer.PKCS1(h)
	switch ch.Weighted(label+"-p1form", 7, 2, 2) {
	case 1:
		a.NoNull = true
	case 2:
		if forSignerInfo {
			a.Generic = true
		}
	}
	return a
}

func drawEncoding(ch chooser, c *Case) {
	c.Enc = ch.Weighted("enc", 35, 25, 25, 15)
	c.EncForms = map[string]int{}
	for _, l := range issuer.Levels {
		f := 0
		switch c.Enc {
		case encIndefinite:
			if l != issuer.LvOuter77 && ch.Weighted("ind-"+l, 1, 3) == 1 {
				f = 1
			}
		case encNonMinimal:
			if ch.Weighted("nm-"+l, 1, 2) == 1 {
				f = 2 + ch.Pick("k-"+l, 3)
			}
		case encMixed:
			f = ch.Pick("mix-"+l, 5)
			if l == issuer.LvOuter77 && f == 1 {
				f = 0
			}
		}
		if f != 0 {
			c.EncForms[l] = f
		}
	}
	if c.Enc == encIndefinite && len(c.EncForms) == 0 {
		c.EncForms[issuer.LvSignedData] = 1
	}
	if c.Enc == encNonMinimal && len(c.EncForms) == 0 {
		c.EncForms[issuer.LvContentInfo] = 2
	}
}

var sampleDGNumbers = []int{2, 7, 11, 12, 13, 14, 15, 16}

func drawCase(ch chooser, fastBias bool) Case {
	var c Case
	c.Country = issuer.Countries[ch.Pick("country", len(issuer.Countries))].Alpha2
	c.CSCAKey = drawKeySpec(ch, "csca", fastBias)
	c.DSKey = drawKeySpec(ch, "ds", fastBias)
	c.CSCASig = drawSigAlg(ch, "cscasig", c.CSCAKey, false)
	c.DSSig = drawSigAlg(ch, "dssig", c.DSKey, true)
	c.LDSHash = issuer.Hashes[ch.Pick("ldshash", 5)]
	c.SID = ch.Pick("sid", 2)
	c.LDSVersion = ch.Pick("ldsver", 2)
	c.SigningTime = ch.Weighted("signing-time", 1, 3) == 1
	c.Era = ch.Pick("era", len(eras))
	c.DSWin = ch.Weighted("dswin", 2, 1, 1, 1)
	c.CSCAWin = ch.Weighted("cscawin", 3, 1, 1, 1)
	drawEncoding(ch, &c)
	if c.SID == 0 && ch.Bool("sidvar") {
		v := issuer.NameVariant{}
		switch ch.Pick("sidvar-kind", 6) {
		case 0:
			v.Reverse = true
		case 1:
			v.Rotate = 1 + ch.Pick("rot", 3)
		case 2:
			v.Retype, v.Type = true, []issuer.StrType{issuer.UTF8, issuer.BMP, issuer.Printable}[ch.Pick("retype", 3)]
		case 3:
			if ch.Bool("upper") {
				v.UpperCase = true
			} else {
				v.LowerCase = true
			}
		case 4:
			v.Spaces = true
		default:
			v.Reverse, v.Retype, v.Type, v.UpperCase, v.Spaces = ch.Bool("r"), true, []issuer.StrType{issuer.UTF8, issuer.BMP}[ch.Pick("t", 2)], ch.Bool("u"), ch.Bool("s")
		}
		c.SIDVariant = v
	}
	c.NameStyle = ch.Weighted("namestyle", 4, 2, 2, 2, 2)
	c.CardSecOwn = ch.Weighted("cardsec-own-signer-and-time", 2, 1, 1)
	c.HashOrder = ch.Weighted("hash-list-order", 3, 1, 1, 1)
	c.PoolKind = ch.Weighted("trust-store-object", 3, 1, 1, 1)
	c.Extra = ch.Weighted("extra", 3, 2, 2, 2, 1)
	c.Store = ch.Weighted("store", 3, 2, 1, 2, 2, 1, 1, 1, 1)
	c.CardSec = ch.Weighted("cardsec", 3, 1) == 1
	c.EType = ch.Weighted("etype", 7, 1, 1, 1)
	c.AttrOrder = ch.Weighted("attrorder", 3, 2, 1)
	c.ExtraSigned = ch.Weighted("extrasigned", 4, 1) == 1
	c.Unsigned = ch.Weighted("unsigned", 4, 1) == 1
	c.DigestNull = ch.Bool("digestnull")
	c.HashNull = ch.Bool("hashnull")
	c.Layout = []string{"TD3", "TD1", "TD2"}[ch.Weighted("layout", 3, 1, 1)]
	for _, n := range sampleDGNumbers {
		switch ch.Weighted(fmt.Sprintf("dg%d", n), 3, 2, 1) {
		case 1:
			c.DGs = append(c.DGs, n)
		case 2:
			c.HashOnly = append(c.HashOnly, n)
		}
	}
	c.NoDG1 = ch.Weighted("nodg1", 9, 1) == 1
	c.DSNoSKI = c.SID == 0 && ch.Weighted("dsnoski", 4, 1) == 1
	if !c.DSNoSKI {
		c.DSSKIStyle = ch.Weighted("dsskistyle", 6, 1, 1, 1, 1)
	}
	c.CSCANoAKI = ch.Weighted("cscanoaki", 3, 1) == 1
	c.CSCANoPathLen = ch.Weighted("cscanopath", 3, 1) == 1
	c.DSMoreExtensions = ch.Bool("dsmoreext")
	c.SerialLen = []int{1, 8, 16, 20}[ch.Pick("seriallen", 4)]
	distinctKeys(&c)
	return c
}

// ---------------------------------------------------------------- building

func styledName(style int, country, ou, cn string) issuer.Name {
	switch style {
	case 1:
		return issuer.Name{
			{{OID: issuer.OidCountry, Value: country}},
			{{OID: issuer.OidOrganization, Value: "Verif Authority", Type: issuer.UTF8}},
			{{OID: issuer.OidOrgUnit, Value: ou, Type: issuer.UTF8}},
			{{OID: issuer.OidCommonName, Value: cn, Type: issuer.UTF8}},
		}
	case 2:
		return issuer.Name{
			{{OID: issuer.OidCountry, Value: country}},
			{{OID: issuer.OidOrganization, Value: "Verif Authority"}},
			{{OID: issuer.OidCommonName, Value: cn, Type: issuer.BMP}},
		}
	case 3:
		return issuer.Name{
			{{OID: issuer.OidCommonName, Value: cn}, {OID: issuer.OidSerialNumber, Value: "007"}},
			{{OID: issuer.OidOrgUnit, Value: ou}, {OID: issuer.OidOrgUnit, Value: "Second Unit", Type: issuer.UTF8}},
			{{OID: issuer.OidOrganization, Value: "Verif Authority"}},
			{{OID: issuer.OidLocality, Value: "Capital City", Type: issuer.UTF8}},
			{{OID: issuer.OidCountry, Value: country}},
		}
	case 4:
		return issuer.Name{
			{{OID: issuer.OidCountry, Value: country}},
			{{OID: issuer.OidOrganization, Value: "Verif Authority"}},
			{{OID: issuer.OidOrgUnit, Value: ou}},
			{{OID: issuer.OidOrgUnit, Value: "Passport Office", Type: issuer.UTF8}},
			{{OID: issuer.OidCommonName, Value: cn}},
		}
	}
	return issuer.SimpleName(country, "Verif Authority", ou, cn)
}

func window(t time.Time, w int, before, after time.Duration) (time.Time, time.Time) {
	nb, na := t.Add(-before), t.Add(after)
	if w == 1 || w == 3 {
		nb = t
	}
	if w == 2 || w == 3 {
		na = t
	}
	return nb, na
}

const day = 24 * time.Hour

func (c Case) encoding() issuer.Encoding {
	e := issuer.Encoding{}
	for l, f := range c.EncForms {
		switch {
		case f == 1:
			e[l] = der.Indefinite
		case f >= 2:
			e[l] = der.LongNonMinimal(f - 2)
		}
	}
	return e
}

var sampleDG = func() map[int][]byte {
	d, err := document.SampleDocument()
	if err != nil {
		panic(err)
	}
	l := d.Mf.Lds1
	return map[int][]byte{2: l.Dg2.RawData, 7: l.Dg7.RawData, 11: l.Dg11.RawData, 12: l.Dg12.RawData, 13: l.Dg13.RawData,
		14: l.Dg14.RawData, 15: l.Dg15.RawData, 16: l.Dg16.RawData}
}()

// world is everything built for one case.
type world struct {
	pki        *issuer.PKI
	sod        *issuer.SignedData
	cardSec    *issuer.SignedData
	cardSigner []byte // DS certificate of EF.CardSecurity when it is not the SOD's
	poolKind   int    // how the trust store object is assembled (see verdict)
	country    string
	docDGs     map[int][]byte
	store      [][]byte // trust store in order
	acceptable [][]byte // anchors the chain may end in
}

// cheapSpec picks a small key of the same family as `like` for auxiliary
// certificates, never one of the pool keys the case itself uses.
func cheapSpec(c Case, like issuer.KeySpec, idx int) issuer.KeySpec {
	if like.Type == "rsa" {
		for _, bits := range []int{2048, 1536, 1280} {
			if (c.CSCAKey.Type != "rsa" || c.CSCAKey.Bits != bits) && (c.DSKey.Type != "rsa" || c.DSKey.Bits != bits) {
				return issuer.RSA(bits, idx)
			}
		}
	}
	return issuer.ECNamed("P-256")
}

// distinctKeys makes sure CSCA and DS do not share a pool key (a DS never
// reuses its CA's key pair).
func distinctKeys(c *Case) {
	if c.CSCAKey.Type == "rsa" && c.DSKey.Type == "rsa" && c.CSCAKey.Bits == c.DSKey.Bits {
		n := len(issuer.RSAPoolKeys(c.DSKey.Bits))
		if c.CSCAKey.Index%n == c.DSKey.Index%n {
			c.DSKey.Index = (c.CSCAKey.Index + 1) % n
		}
	}
}

func build(c Case, src issuer.Source) (*world, error) {
	t := eras[c.Era]
	dnb, dna := window(t, c.DSWin, 30*day, 3650*day)
	cnb, cna := window(t, c.CSCAWin, 1000*day, 4400*day)
	p := issuer.Profile{
		Country: c.Country, CSCAKey: c.CSCAKey, DSKey: c.DSKey, CSCASig: c.CSCASig, DSSig: c.DSSig, LDSHash: c.LDSHash,
		SigningTime: t, CSCANotBefore: cnb, CSCANotAfter: cna, DSNotBefore: dnb, DSNotAfter: dna, SerialLen: c.SerialLen,
		CSCAName: styledName(c.NameStyle, c.Country, "CSCA", "CSCA "+c.Country),
		DSName:   styledName(c.NameStyle, c.Country, "DS", "Document Signer 0042"),
	}
	p.CSCAMutate = func(ct *issuer.CertTemplate) {
		if c.CSCANoAKI {
			ct.AKI = nil
		}
		if c.CSCANoPathLen {
			ct.BasicConstraints.HasPath = false
		}
	}
	dsMut := func(dt *issuer.CertTemplate) {
		if c.DSNoSKI {
			dt.SKI = nil
		} else if base := dt.SubjectKey.SKI(); len(base) >= 18 {
			switch c.DSSKIStyle {
			case 1:
				dt.SKI = append([]byte{0x04, 0x12}, base[:18]...)
			case 2:
				dt.SKI = append([]byte{0x04, 0x06}, base[:6]...)
			case 3:
				dt.SKI = append([]byte{0x30, 0x12}, base[:18]...)
			case 4:
				dt.SKI = []byte{base[0]}
			}
		}
		if c.DSMoreExtensions {
			dt.Extra = append(dt.Extra,
				issuer.Extension{OID: issuer.OidExtPrivKeyUsage, Value: issuer.PrivateKeyUsagePeriod(dt.NotBefore, dt.NotBefore.Add(90*day))},
				issuer.Extension{OID: issuer.OidExtCRLDP, Value: der.Seq(der.Seq(der.Explicit(0, der.Implicit(0, true, der.Implicit(6, false, []byte("http://example.org/crl"))))))},
				issuer.Extension{OID: issuer.OidExtUnknown, Value: der.OctetString([]byte("opaque"))})
		}
	}
	p.DSMutate = dsMut
	pki, err := issuer.NewPKI(src, p)
	if err != nil {
		return nil, err
	}
	w := &world{pki: pki, poolKind: c.PoolKind, country: c.Country}

	// trust store arrangement
	others := 0
	other := func(country, cn string, ski []byte) (*issuer.Certificate, error) {
		k, err := issuer.NewKey(src, cheapSpec(c, c.CSCAKey, others))
		others++
		if err != nil {
			return nil, err
		}
		ct := issuer.CSCATemplate(issuer.SimpleName(country, "Other Authority", "CSCA", cn), k, cnb.Add(-day), cna.Add(day), issuer.DefaultSigAlg(k.Spec, "sha256"))
		ct.Serial = issuer.RandomSerial(src, 8)
		if ski != nil {
			ct.SKI, ct.AKI = ski, ski
		}
		return issuer.CreateCertificate(src, ct, k)
	}
	genuine := pki.CSCA
	switch c.Store {
	case storeSingle:
		w.store, w.acceptable = [][]byte{genuine.DER}, [][]byte{genuine.DER}
	case storeExpiredTwinFirst, storeNotYetTwinFirst:
		twin, err := pki.ReissueCSCA(func(ct *issuer.CertTemplate) {
			if c.Store == storeExpiredTwinFirst {
				ct.NotBefore, ct.NotAfter = t.Add(-2000*day), t.Add(-time.Second)
			} else {
				ct.NotBefore, ct.NotAfter = t.Add(time.Second), t.Add(2000*day)
			}
		})
		if err != nil {
			return nil, err
		}
		w.store, w.acceptable = [][]byte{twin.DER, genuine.DER}, [][]byte{genuine.DER}
		if !c.SigningTime {
			// no stated signing time: no validity period can be evaluated, either anchor holds the key
			w.acceptable = append(w.acceptable, twin.DER)
		}
	case storeCollisionFirst:
		x, err := other(c.Country, "Colliding CSCA", genuine.Tmpl.SKI)
		if err != nil {
			return nil, err
		}
		w.store, w.acceptable = [][]byte{x.DER, genuine.DER}, [][]byte{genuine.DER}
	case storeLinkOnly, storeOldThenLink, storeLinkThenNew:
		op := issuer.Profile{Country: c.Country, CSCAKey: cheapSpec(c, c.CSCAKey, 1), DSKey: issuer.ECNamed("P-256"),
			SigningTime: t, CSCANotBefore: cnb.Add(-1000 * day), CSCANotAfter: cna,
			CSCAName: styledName(c.NameStyle, c.Country, "CSCA", "CSCA "+c.Country+" previous")}
		op.CSCASig, op.DSSig, op.LDSHash = issuer.DefaultSigAlg(op.CSCAKey, "sha256"), issuer.ECDSA("sha256"), "sha256"
		old, err := issuer.NewPKI(src, op)
		if err != nil {
			return nil, err
		}
		link, err := pki.IssueLinkTo(old, nil)
		if err != nil {
			return nil, err
		}
		switch c.Store {
		case storeLinkOnly:
			w.store, w.acceptable = [][]byte{link.DER}, [][]byte{link.DER}
		case storeOldThenLink:
			w.store, w.acceptable = [][]byte{old.CSCA.DER, link.DER}, [][]byte{link.DER}
		default:
			w.store, w.acceptable = [][]byte{link.DER, genuine.DER}, [][]byte{link.DER, genuine.DER}
		}
	case storeForeignFirst:
		fc := "XK"
		for _, cc := range issuer.Countries {
			if cc.Alpha2 != c.Country {
				fc = cc.Alpha2
				break
			}
		}
		x, err := other(fc, "Foreign CSCA", genuine.Tmpl.SKI)
		if err != nil {
			return nil, err
		}
		y, err := other(fc, "Foreign CSCA 2", nil)
		if err != nil {
			return nil, err
		}
		w.store, w.acceptable = [][]byte{x.DER, y.DER, genuine.DER}, [][]byte{genuine.DER}
	case storeAmongOthers:
		x, err := other(c.Country, "Older CSCA", nil)
		if err != nil {
			return nil, err
		}
		y, err := other(c.Country, "Newer CSCA", nil)
		if err != nil {
			return nil, err
		}
		w.store, w.acceptable = [][]byte{x.DER, genuine.DER, y.DER}, [][]byte{genuine.DER}
	}

	// data groups
	w.docDGs = map[int][]byte{}
	hashed := map[int][]byte{}
	if !c.NoDG1 {
		dg1, _, err := issuer.BuildDG1(src, c.Country, c.Layout)
		if err != nil {
			return nil, err
		}
		w.docDGs[1], hashed[1] = dg1, dg1
	} else {
		dg1, _, err := issuer.BuildDG1(src, c.Country, c.Layout)
		if err != nil {
			return nil, err
		}
		hashed[1] = dg1 // on the chip and in the list, just not read
	}
	for _, n := range c.DGs {
		w.docDGs[n], hashed[n] = sampleDG[n], sampleDG[n]
	}
	for _, n := range c.HashOnly {
		hashed[n] = sampleDG[n]
	}

	// EF.SOD
	var extras [][]byte
	var ds2 *issuer.Certificate
	if c.Extra >= 2 {
		k2, err := issuer.NewKey(src, cheapSpec(c, c.DSKey, 2))
		if err != nil {
			return nil, err
		}
		ds2, err = pki.IssueDS(k2, styledName(c.NameStyle, c.Country, "DS", "Document Signer 0043"), nil)
		if err != nil {
			return nil, err
		}
	}
	switch c.Extra {
	case 1:
		extras = [][]byte{genuine.DER}
	case 2, 3:
		extras = [][]byte{ds2.DER}
	case 4:
		extras = [][]byte{genuine.DER, ds2.DER}
	}
	o := issuer.SODOptions{HashOrder: c.HashOrder, LDSVersion: c.LDSVersion, HashNull: c.HashNull, EContentType: eTypes[c.EType],
		ExtraHashes: map[int][]byte{3: issuer.Digest(c.LDSHash, []byte("fingerprints stay on the chip"))}}
	o.SID = issuer.SIDForm(c.SID)
	if !c.SIDVariant.Identity() {
		v := c.SIDVariant
		o.SIDName = &v
	}
	o.NoSigningTime = !c.SigningTime
	o.AttrOrder = issuer.AttrOrder(c.AttrOrder)
	if c.ExtraSigned {
		o.ExtraSigned = []issuer.Attribute{{OID: issuer.OidAttrUnknown, Values: [][]byte{der.UTF8("signed extra")}}}
	}
	if c.Unsigned {
		o.Unsigned = []issuer.Attribute{{OID: issuer.OidAttrUnknown, Values: [][]byte{der.OctetString([]byte("unsigned"))}}}
	}
	o.DigestNull = c.DigestNull
	o.ExtraCerts, o.ExtrasFirst = extras, c.Extra == 3
	o.Encoding = c.encoding()
	if w.sod, err = pki.SignSODDetailed(hashed, o); err != nil {
		return nil, err
	}
	if c.CardSec {
		si := lds.SecurityInfos(lds.PACEInfo("0.4.0.127.0.7.2.2.4.2.2", 2, big.NewInt(13)), lds.UnknownInfo("1.3.6.1.4.1.55555.3.1", []byte{1, 2, 3}))
		co := issuer.CMSOptions{SID: issuer.SIDForm(c.SID), NoSigningTime: !c.SigningTime, DigestNull: c.DigestNull}
		// EF.CardSecurity is a signed object of its own: it may have been produced at another time by
		// another document signer certificate, valid THEN and not at the SOD's signing time
		own := c.CardSecOwn
		if !c.SigningTime || (own == 1 && (c.CSCAWin == 1 || c.CSCAWin == 3)) || (own == 2 && (c.CSCAWin == 2 || c.CSCAWin == 3)) {
			own = 0 // no stated time, or the CSCA's validity ends / starts at the SOD's signing time on that side
		}
		if own != 0 {
			t2 := t.Add(-400 * day)
			if own == 2 {
				t2 = t.Add(400 * day)
			}
			ds3, err := pki.IssueDS(pki.DSKey, styledName(c.NameStyle, c.Country, "DS", "Document Signer 0044"), func(dt *issuer.CertTemplate) {
				dt.NotBefore, dt.NotAfter = t2.Add(-10*day), t2.Add(10*day)
			})
			if err != nil {
				return nil, err
			}
			co.Signer, co.SigningTime = ds3, &t2
			w.cardSigner = ds3.DER
			evidCount(fmt.Sprintf("cardsec-own-signer:%d", own))
		}
		if w.cardSec, err = pki.SignCardSecurityDetailed(si, co); err != nil {
			return nil, err
		}
	}
	return w, nil
}

// ---------------------------------------------------------------- the oracle

func hexHead(b []byte) string {
	if len(b) > 48 {
		return hex.EncodeToString(b[:48]) + "…"
	}
	return hex.EncodeToString(b)
}

func in(list [][]byte, b []byte) bool {
	for _, x := range list {
		if bytes.Equal(x, b) {
			return true
		}
	}
	return false
}

// verdict runs the library on the built world.  "" = the property holds.
func verdict(w *world) string {
	sod, err := document.NewSOD(w.sod.DER)
	if err != nil {
		return "NewSOD rejects a genuine EF.SOD: " + err.Error()
	}
	var doc document.Document
	doc.Mf.Lds1.Sod = sod
	var nums []int
	for n := range w.docDGs {
		nums = append(nums, n)
	}
	sort.Ints(nums)
	for _, n := range nums {
		if err := doc.NewDG(n, w.docDGs[n]); err != nil {
			return fmt.Sprintf("INFRA: NewDG(%d): %v", n, err)
		}
	}
	if w.cardSec != nil {
		if doc.Mf.CardSecurity, err = document.NewCardSecurity(w.cardSec.DER); err != nil {
			return "NewCardSecurity rejects a genuine EF.CardSecurity: " + err.Error()
		}
	}
	// The same certificates, in the same order, in trust store objects put together in different ways:
	// 0 one pool filled with Add; 1 one pool, first half via Add, a lookup on the half-filled pool, the
	// rest via AddCerts (a store that grows while in use); 2 a CombinedCertPool of two pools splitting the
	// list (master lists of two origins); 3 as 2 with a lookup between the AddCertPool calls
	var pool cms.CertPool
	mkGeneric := func(list [][]byte) (*cms.GenericCertPool, string) {
		p := &cms.GenericCertPool{}
		for _, c := range list {
			if err := p.Add(c); err != nil {
				return nil, "trust store refuses a genuine CSCA certificate: " + err.Error()
			}
		}
		return p, ""
	}
	half := (len(w.store) + 1) / 2
	switch w.poolKind {
	case 1:
		p, msg := mkGeneric(w.store[:half])
		if msg != "" {
			return msg
		}
		p.ByIssuerCountry(w.country)
		p.BySKI([]byte{1, 2, 3})
		rest, msg := mkGeneric(w.store[half:])
		if msg != "" {
			return msg
		}
		p.AddCerts(rest.All())
		pool = p
	case 2, 3:
		a, msg := mkGeneric(w.store[:half])
		if msg != "" {
			return msg
		}
		b, msg := mkGeneric(w.store[half:])
		if msg != "" {
			return msg
		}
		cp := &cms.CombinedCertPool{}
		cp.AddCertPool(a)
		if w.poolKind == 3 {
			cp.ByIssuerCountry(w.country)
		}
		cp.AddCertPool(b)
		pool = cp
	default:
		p, msg := mkGeneric(w.store)
		if msg != "" {
			return msg
		}
		pool = p
	}
	res, err := passiveauth.PassiveAuth(&doc, pool)
	if err != nil || res == nil || !res.Success {
		return fmt.Sprintf("PassiveAuth rejects a genuine document: %v", err)
	}
	check := func(what string, chain [][]byte) string {
		if len(chain) != 2 {
			return fmt.Sprintf("%s: chain has %d elements, want 2", what, len(chain))
		}
		signer := w.pki.DS.DER
		if what == "CardSecurity" && w.cardSigner != nil {
			signer = w.cardSigner
		}
		if !bytes.Equal(chain[0], signer) {
			return what + ": chain[0] is not the document signer certificate"
		}
		if what == "CardSecurity" && w.cardSigner != nil {
			// signed at another time: which of the store's anchors are usable is decided at THAT time
			// (an anchor expired at the SOD's signing time may be the right one here)
			if !in(w.store, chain[1]) {
				return what + ": chain[1] is not a certificate of the trust store: " + hexHead(chain[1])
			}
			return ""
		}
		if !in(w.acceptable, chain[1]) {
			return what + ": chain[1] is not an acceptable trust anchor: " + hexHead(chain[1])
		}
		return ""
	}
	if res.Sod == nil {
		return "PassiveAuth: no SOD result"
	}
	if m := check("SOD", res.Sod.CertChain); m != "" {
		return m
	}
	if w.cardSec != nil {
		if res.CardSec == nil {
			return "PassiveAuth: no CardSecurity result"
		}
		if m := check("CardSecurity", res.CardSec.CertChain); m != "" {
			return m
		}
	}
	// second observation point: SignedData.Verify on the full (unfiltered) store
	chain, err := sod.SD.Verify(pool)
	if err != nil {
		return "SignedData.Verify rejects a genuine SOD: " + err.Error()
	}
	return check("SignedData.Verify", chain)
}

func classes(c Case) []string {
	kt := func(s issuer.KeySpec) string {
		if s.Type == "rsa" {
			return fmt.Sprintf("rsa%d", s.Bits)
		}
		f := "named"
		if s.Explicit {
			f = "explicit"
			if s.Seed {
				f = "explicit+seed"
			}
		}
		return s.Curve + "/" + f
	}
	sa := func(a issuer.SigAlg) string {
		s := a.Scheme
		if a.Scheme == "pss" {
			if a.OmitDefaults {
				s += "-der"
			} else {
				s += "-explicit"
			}
		}
		return s + "-" + a.Hash
	}
	out := []string{
		"csca-key:" + kt(c.CSCAKey), "ds-key:" + kt(c.DSKey), "csca-sig:" + sa(c.CSCASig), "ds-sig:" + sa(c.DSSig),
		"lds-hash:" + c.LDSHash, fmt.Sprintf("sid:%d", c.SID), fmt.Sprintf("lds-version:%d", c.LDSVersion),
		fmt.Sprintf("signing-time:%v", c.SigningTime), fmt.Sprintf("era:%d", eras[c.Era].Year()),
		fmt.Sprintf("ds-window:%d", c.DSWin), fmt.Sprintf("csca-window:%d", c.CSCAWin),
		"encoding:" + encNames[c.Enc], "store:" + storeNames[c.Store], fmt.Sprintf("extra-certs:%d", c.Extra),
		fmt.Sprintf("cardsec:%v", c.CardSec), fmt.Sprintf("econtenttype:%d", c.EType), fmt.Sprintf("attr-order:%d", c.AttrOrder),
		fmt.Sprintf("name-style:%d", c.NameStyle), fmt.Sprintf("trust-store-object:%d", c.PoolKind),
	}
	if !c.SIDVariant.Identity() {
		out = append(out, "sid-name-variant")
		if c.Extra != 0 {
			out = append(out, "sid-name-variant+extra-certs")
		}
	}
	if c.DSSig.Scheme == "pss" {
		out = append(out, fmt.Sprintf("ds-pss-salt:%s", saltClass(c.DSSig, c.DSKey)))
	}
	if c.CSCASig.Scheme == "pss" {
		out = append(out, fmt.Sprintf("csca-pss-salt:%s", saltClass(c.CSCASig, c.CSCAKey)))
	}
	if c.DSSig.Generic {
		out = append(out, "ds-sig:rsaEncryption-generic")
	}
	return out
}

func saltClass(a issuer.SigAlg, k issuer.KeySpec) string {
	switch {
	case a.SaltLen == 0:
		return "0"
	case a.SaltLen == issuer.MaxPSSSalt(k.Bits, a.Hash):
		return "max"
	case a.SaltLen == issuer.HashLen(a.Hash) || a.SaltLen < 0:
		return "hlen"
	}
	return "other"
}

type failer interface {
	Helper()
	Fatalf(format string, args ...any)
	Logf(format string, args ...any)
}

// runCase builds and checks one case.  seed != "" makes the key material a
// function of the seed string (enumeration, replay); otherwise it comes from rt.
func runCase(t failer, name string, c Case, src issuer.Source, seed string) {
	if inF12(c) && evid.Open(prop, f12) {
		evid.Excluded(f12)
		return
	}
	w, err := build(c, src)
	if err != nil {
		evid.Infra(t, "generator failed for %s: %v", c.key(), err)
		return
	}
	msg := verdict(w)
	for _, cl := range classes(c) {
		evid.Count(cl, 1)
	}
	evid.CaseFn("profile", true, c.key(), func() any { return c })
	if msg == "" {
		return
	}
	if strings.HasPrefix(msg, "INFRA:") {
		evid.Infra(t, "%s", msg)
		return
	}
	repro := map[string]any{"case": c, "seed": seed, "sod": hex.EncodeToString(w.sod.DER), "store": hexList(w.store), "dgs": hexMap(w.docDGs)}
	if w.cardSec != nil {
		repro["cardsec"] = hex.EncodeToString(w.cardSec.DER)
	}
	evid.Fail(t, name, repro, "%s  [%s]", msg, c.key())
}

func hexList(l [][]byte) []string {
	var o []string
	for _, b := range l {
		o = append(o, hex.EncodeToString(b))
	}
	return o
}

func hexMap(m map[int][]byte) map[string]string {
	o := map[string]string{}
	for n, b := range m {
		o[fmt.Sprint(n)] = hex.EncodeToString(b)
	}
	return o
}

// ---------------------------------------------------------------- tests

// TestProfiles: random points of the whole profile matrix with all neutral
// variations (quick 600 documents, thorough 18 000).
func TestProfiles(t *testing.T) {
	evid.RapidCheck(t, 600, 18000, func(rt *rapid.T) {
		ch := rapidChooser{rapidSrc{rt}}
		c := drawCase(ch, !evid.Thorough())
		runCase(rt, "profiles", c, ch, "")
	})
}

// dsSidePoints enumerates (key spec, signature algorithm) pairs: every key
// size / curve / parameter form with every scheme, digest and PSS salt class.
func sidePoints(forSignerInfo bool) (out []struct {
	K issuer.KeySpec
	A issuer.SigAlg
}) {
	add := func(k issuer.KeySpec, a issuer.SigAlg) {
		out = append(out, struct {
			K issuer.KeySpec
			A issuer.SigAlg
		}{k, a})
	}
	for _, bits := range issuer.RSASizes {
		for hi, h := range issuer.Hashes {
			k := issuer.RSA(bits, hi%3)
			add(k, issuer.PKCS1(h))
			max := issuer.MaxPSSSalt(bits, h)
			for _, s := range []int{0, issuer.HashLen(h), max} {
				if s > max {
					continue
				}
				add(k, issuer.SigAlg{Scheme: "pss", Hash: h, SaltLen: s})
				add(k, issuer.SigAlg{Scheme: "pss", Hash: h, SaltLen: s, OmitDefaults: true})
			}
		}
	}
	for _, cn := range curveNames {
		for _, k := range []issuer.KeySpec{issuer.ECNamed(cn), issuer.ECExplicit(cn), {Type: "ec", Curve: cn, Explicit: true, Cofactor: true, Seed: true}} {
			for _, h := range issuer.Hashes {
				add(k, issuer.ECDSA(h))
			}
		}
	}
	return out
}

// TestMatrix: deterministic enumeration of the cross product of the crypto
// dimensions on the DS side (key x scheme x digest x salt class) x LDS digest,
// with the CSCA side rotating through the same list, 3 instantiations each in
// the thorough tier (about 7 000 documents); the quick tier takes every 12th
// point, offset by the seed.
func TestMatrix(t *testing.T) {
	pts := sidePoints(true)
	inst := evid.Pick(1, 3)
	stride := evid.Pick(12, 1)
	offset := int(evid.Seed()%int64(stride)+int64(stride)) % stride
	idx := 0
	complete := true
	for di, d := range pts {
		for hi, h := range issuer.Hashes {
			for r := 0; r < inst; r++ {
				idx++
				if idx%stride != offset || !evid.MineIdx(idx/stride) {
					continue
				}
				seed := fmt.Sprintf("c09-matrix/%d/%d", evid.Seed(), idx)
				ch := seedChooser{issuer.NewSeedSource(seed)}
				c := drawCase(ch, false) // neutral variations from the seed
				cs := pts[(di*5+hi*7+r*11+3)%len(pts)]
				c.DSKey, c.DSSig, c.LDSHash, c.CSCAKey, c.CSCASig = d.K, d.A, h, cs.K, cs.A
				c.CSCASig.Generic = false
				distinctKeys(&c)
				if c.SID == 1 {
					c.DSNoSKI = false
				}
				func() {
					defer func() {
						if r := recover(); r != nil {
							complete = false
							evid.Fail(t, "matrix", map[string]any{"case": c, "seed": seed}, "panic: %v [%s]", r, c.key())
						}
					}()
					runCase(t, "matrix", c, ch, seed)
				}()
			}
		}
	}
	if stride == 1 {
		evid.Exhaustive("crypto-matrix", complete)
	}
}

// TestKnownF12 probes the known finding (only while it is listed as open) and
// reports it when it still reproduces.
func TestKnownF12(t *testing.T) {
	if evid.Shard() != 0 || !evid.Open(prop, f12) {
		return
	}
	if msg := f12Probe(); msg != "" {
		evid.ReportKnown(prop, f12, "a document whose DS certificate is signed with RSASSA-PSS/SHA-1 and DER-encoded parameters (DEFAULT hashAlgorithm / maskGenAlgorithm omitted, e.g. parameters 30 00) is rejected: "+msg)
	}
}

func f12Case() Case {
	return Case{Country: "DE", CSCAKey: issuer.RSA(2048, 0), DSKey: issuer.RSA(2048, 1),
		CSCASig: issuer.SigAlg{Scheme: "pss", Hash: "sha1", SaltLen: 20, OmitDefaults: true}, DSSig: issuer.PKCS1("sha256"),
		LDSHash: "sha256", SigningTime: true, Era: 2, Layout: "TD3", SerialLen: 8}
}

func f12Probe() string {
	w, err := build(f12Case(), issuer.NewSeedSource("c09-f12"))
	if err != nil {
		return "INFRA: " + err.Error()
	}
	return verdict(w)
}

// TestRegressionF12: once F12 is not open any more (repaired), the class must
// verify; while it is open this is covered by TestKnownF12.
func TestRegressionF12(t *testing.T) {
	if evid.Shard() != 0 || evid.Open(prop, f12) {
		return
	}
	c := f12Case()
	for _, h := range []string{"sha1", "sha256"} {
		for _, salt := range []int{20, 0, 32} {
			c.CSCASig = issuer.SigAlg{Scheme: "pss", Hash: h, SaltLen: salt, OmitDefaults: true}
			runCase(t, "regression-F12", c, issuer.NewSeedSource("c09-f12"), "c09-f12")
		}
	}
}

// TestReplayJSON re-executes a saved JSON repro (./verif replay C09 <file>):
// the stored objects are fed to the library again, and when the repro carries
// a seed the case is also rebuilt from it.
func TestReplayJSON(t *testing.T) {
	path := os.Getenv("VERIF_REPLAY_JSON")
	if path == "" {
		return
	}
	b, err := os.ReadFile(path)
	if err != nil {
		t.Fatalf("read: %v", err)
	}
	var doc struct {
		Case struct {
			Case    Case              `json:"case"`
			Seed    string            `json:"seed"`
			Sod     string            `json:"sod"`
			Store   []string          `json:"store"`
			Dgs     map[string]string `json:"dgs"`
			CardSec string            `json:"cardsec"`
		} `json:"case"`
	}
	if err := json.Unmarshal(b, &doc); err != nil {
		t.Fatalf("parse: %v", err)
	}
	r := doc.Case
	if r.Sod != "" {
		// stored bytes: rebuild a world around them (acceptable anchors = the whole store)
		w := &world{docDGs: map[int][]byte{}}
		sodB, _ := hex.DecodeString(r.Sod)
		w.sod = &issuer.SignedData{DER: sodB}
		for _, s := range r.Store {
			x, _ := hex.DecodeString(s)
			w.store = append(w.store, x)
			w.acceptable = append(w.acceptable, x)
		}
		for k, v := range r.Dgs {
			var n int
			fmt.Sscan(k, &n)
			w.docDGs[n], _ = hex.DecodeString(v)
		}
		if r.CardSec != "" {
			x, _ := hex.DecodeString(r.CardSec)
			w.cardSec = &issuer.SignedData{DER: x}
		}
		if v, err := issuer.ParseSignedData(sodB, true); err == nil && len(v.Certificates) > 0 {
			// chain[0] must be the certificate the SID selects; accept any embedded one here
			for _, c := range v.Certificates {
				w.pki = &issuer.PKI{DS: &issuer.Certificate{DER: c}}
				if m := verdict(w); m == "" {
					return
				} else if !strings.Contains(m, "chain[0]") {
					t.Fatalf("VIOLATION reproduced: %s", m)
				}
			}
			t.Fatalf("VIOLATION reproduced: chain[0] is none of the embedded certificates")
		}
		t.Fatalf("stored SOD unreadable by the harness reader")
	}
	if r.Seed != "" {
		w, err := build(r.Case, issuer.NewSeedSource(r.Seed))
		if err != nil {
			t.Fatalf("build: %v", err)
		}
		if m := verdict(w); m != "" {
			t.Fatalf("VIOLATION reproduced: %s", m)
		}
	}
}

func evidCount(class string) { evid.Count(class, 1) }
