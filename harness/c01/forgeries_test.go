package c01

import (
	"bytes"
	"fmt"
	"math/big"
	"sync"
	"testing"
	"time"

	"github.com/gmrtd/gmrtd/cms"
	"pgregory.net/rapid"

	"verifharness/evid"
	"verifharness/issuer"
	"verifharness/lds"
	"verifharness/ref/der"
	"verifharness/ref/ecc"
)

// ---------------------------------------------------------------- base profile

var eras = []time.Time{
	time.Date(2012, 3, 4, 5, 6, 7, 0, time.UTC),
	time.Date(2024, 6, 1, 12, 0, 0, 0, time.UTC),
	time.Date(2049, 12, 31, 23, 59, 59, 0, time.UTC),
	time.Date(2050, 1, 1, 0, 0, 0, 0, time.UTC),
}

var curveNames = func() []string {
	var n []string
	for _, c := range ecc.Curves() {
		n = append(n, c.Name)
	}
	return n
}()

// Base is the (valid) issuing profile a forgery starts from.
type Base struct {
	Country        string
	CSCAKey, DSKey issuer.KeySpec
	CSCASig, DSSig issuer.SigAlg
	LDSHash        string
	SID            int
	LDSVersion     int
	Era            int
	SigningTime    bool
	Enc            int // 0 DER, 1 indefinite, 2 non-minimal
	Layout         string
}

func (b Base) key() string {
	return fmt.Sprintf("%s|%s|%s|%s|%s|sid%d|v%d|era%d|st%v|enc%d", b.CSCAKey, b.CSCASig, b.DSKey, b.DSSig, b.LDSHash, b.SID, b.LDSVersion, b.Era, b.SigningTime, b.Enc)
}

func drawKeySpec(ch chooser, label string, fast bool) issuer.KeySpec {
	if fast && ch.Weighted(label+"-fast", 70, 30) == 0 {
		switch ch.Pick(label+"-fastkind", 4) {
		case 0:
			return issuer.ECNamed("P-256")
		case 1:
			return issuer.ECExplicit("P-256")
		case 2:
			return issuer.RSA(2048, ch.Pick(label+"-idx", 3))
		default:
			return issuer.ECExplicit("brainpoolP256r1")
		}
	}
	if ch.Weighted(label+"-type", 35, 65) == 0 {
		return issuer.RSA(issuer.RSASizes[ch.Pick(label+"-bits", len(issuer.RSASizes))], ch.Pick(label+"-idx", 3))
	}
	s := issuer.KeySpec{Type: "ec", Curve: curveNames[ch.Pick(label+"-curve", len(curveNames))]}
	if ch.Bool(label + "-explicit") {
		s.Explicit, s.Cofactor = true, true
	}
	return s
}

func drawSigAlg(ch chooser, label string, spec issuer.KeySpec) issuer.SigAlg {
	h := issuer.Hashes[ch.Pick(label+"-hash", 5)]
	if spec.Type == "ec" {
		return issuer.ECDSA(h)
	}
	if ch.Bool(label + "-pss") {
		a := issuer.SigAlg{Scheme: "pss", Hash: h, SaltLen: issuer.HashLen(h)}
		if ch.Bool(label + "-salt0") {
			a.SaltLen = 0
		}
		if max := issuer.MaxPSSSalt(spec.Bits, h); a.SaltLen > max {
			a.SaltLen = max
		}
		return a // parameters written explicitly (the DER-omitted SHA-1 form is C09's known finding F12)
	}
	return issuer.PKCS1(h)
}

func drawBase(ch chooser, fast bool) Base {
	var b Base
	b.Country = issuer.Countries[ch.Pick("country", len(issuer.Countries))].Alpha2
	b.CSCAKey = drawKeySpec(ch, "csca", fast)
	b.DSKey = drawKeySpec(ch, "ds", fast)
	if b.CSCAKey.Type == "rsa" && b.DSKey.Type == "rsa" && b.CSCAKey.Bits == b.DSKey.Bits {
		n := len(issuer.RSAPoolKeys(b.DSKey.Bits))
		if b.CSCAKey.Index%n == b.DSKey.Index%n {
			b.DSKey.Index = (b.CSCAKey.Index + 1) % n
		}
	}
	b.CSCASig = drawSigAlg(ch, "cscasig", b.CSCAKey)
	b.DSSig = drawSigAlg(ch, "dssig", b.DSKey)
	b.LDSHash = issuer.Hashes[ch.Pick("ldshash", 5)]
	b.SID = ch.Pick("sid", 2)
	b.LDSVersion = ch.Pick("ldsver", 2)
	b.Era = ch.Pick("era", len(eras))
	b.SigningTime = ch.Weighted("signing-time", 1, 4) == 1
	b.Enc = ch.Weighted("enc", 6, 2, 2)
	b.Layout = []string{"TD3", "TD1", "TD2"}[ch.Weighted("layout", 3, 1, 1)]
	return b
}

// auxSpec is a key spec of the same family that is certainly not a pool key
// the base uses.
func auxSpec(b Base, like issuer.KeySpec, idx int) issuer.KeySpec {
	if like.Type == "rsa" {
		for _, bits := range []int{2048, 1536, 1280} {
			if (b.CSCAKey.Type != "rsa" || b.CSCAKey.Bits != bits) && (b.DSKey.Type != "rsa" || b.DSKey.Bits != bits) {
				return issuer.RSA(bits, idx)
			}
		}
	}
	if like.Type == "ec" {
		return like // fresh scalar from the source
	}
	return issuer.ECNamed("P-256")
}

// ---------------------------------------------------------------- context, variants

var sampleDG = func() map[int][]byte {
	d, err := sampleDocument()
	if err != nil {
		panic(err)
	}
	return d
}()

type ctx struct {
	b      Base
	src    issuer.Source
	t      time.Time
	pki    *issuer.PKI
	dgs    map[int][]byte // genuine files loaded into the document
	hashed map[int][]byte // genuine files in the hash list (superset of dgs)
	mrz    string
}

// cardVariant describes EF.CardSecurity of a variant.
type cardVariant struct {
	pki         *issuer.PKI
	signKey     *issuer.Key
	mutate      func(*issuer.CMSSpec)
	signer      *issuer.Certificate // DS certificate of EF.CardSecurity; nil = the PKI's DS
	signingTime *time.Time          // signing time of EF.CardSecurity; nil = the SOD's
}

// variant is one concrete (document, SOD, CardSecurity, trust store) to build.
type variant struct {
	pki     *issuer.PKI         // who signs EF.SOD; nil = the genuine PKI
	signer  *issuer.Certificate // embedded / referenced DS certificate; nil = pki.DS
	signKey *issuer.Key
	store   [][]byte
	hashed  map[int][]byte
	docDGs  map[int][]byte
	omit    []int
	mutate  func(*issuer.CMSSpec)
	card    *cardVariant
}

func cloneDGs(m map[int][]byte) map[int][]byte {
	o := map[int][]byte{}
	for k, v := range m {
		o[k] = v
	}
	return o
}

func (c *ctx) baseVariant() variant {
	return variant{store: [][]byte{c.pki.CSCA.DER}, hashed: cloneDGs(c.hashed), docDGs: cloneDGs(c.dgs)}
}

func (c *ctx) encoding() issuer.Encoding {
	switch c.b.Enc {
	case 1:
		e := issuer.AllLevels(der.Indefinite)
		delete(e, issuer.LvOuter77)
		return e
	case 2:
		return issuer.AllLevels(der.LongNonMinimal(1))
	}
	return nil
}

func (c *ctx) cmsOptions() issuer.CMSOptions {
	return issuer.CMSOptions{SID: issuer.SIDForm(c.b.SID), NoSigningTime: !c.b.SigningTime}
}

func (c *ctx) signSOD(v variant) (*issuer.SignedData, error) {
	pki := v.pki
	if pki == nil {
		pki = c.pki
	}
	o := issuer.SODOptions{HashOrder: int(c.b.Era+c.b.SID+c.b.LDSVersion) % 4, LDSVersion: c.b.LDSVersion, Omit: v.omit,
		ExtraHashes: map[int][]byte{3: issuer.Digest(c.b.LDSHash, []byte("not readable"))}}
	o.CMSOptions = c.cmsOptions()
	o.Signer, o.SignKey, o.Mutate, o.Encoding = v.signer, v.signKey, v.mutate, c.encoding()
	return pki.SignSODDetailed(v.hashed, o)
}

var cardSecInfos = lds.SecurityInfos(lds.PACEInfo("0.4.0.127.0.7.2.2.4.2.2", 2, big.NewInt(13)), lds.UnknownInfo("1.3.6.1.4.1.55555.3.1", []byte{1, 2, 3}))

func (c *ctx) signCard(cv *cardVariant) (*issuer.SignedData, error) {
	pki := cv.pki
	if pki == nil {
		pki = c.pki
	}
	o := c.cmsOptions()
	o.SignKey, o.Mutate = cv.signKey, cv.mutate
	if cv.signer != nil {
		o.Signer = cv.signer
	}
	if cv.signingTime != nil {
		o.SigningTime, o.NoSigningTime = cv.signingTime, false
	}
	return pki.SignCardSecurityDetailed(cardSecInfos, o)
}

func (c *ctx) assemble(v variant) (input, error) {
	sod, err := c.signSOD(v)
	if err != nil {
		return input{}, err
	}
	in := input{SOD: sod.DER, DGs: v.docDGs, Store: v.store}
	if v.card != nil {
		cs, err := c.signCard(v.card)
		if err != nil {
			return input{}, err
		}
		in.CardSec = cs.DER
	}
	return in, nil
}

func newCtx(b Base, src issuer.Source) (*ctx, error) {
	c := &ctx{b: b, src: src, t: eras[b.Era]}
	p := issuer.Profile{Country: b.Country, CSCAKey: b.CSCAKey, DSKey: b.DSKey, CSCASig: b.CSCASig, DSSig: b.DSSig, LDSHash: b.LDSHash, SigningTime: c.t}
	var err error
	if c.pki, err = issuer.NewPKI(src, p); err != nil {
		return nil, err
	}
	dg1, m, err := issuer.BuildDG1(src, b.Country, b.Layout)
	if err != nil {
		return nil, err
	}
	c.mrz = m
	c.dgs = map[int][]byte{1: dg1, 11: sampleDG[11], 14: sampleDG[14], 15: sampleDG[15]}
	c.hashed = cloneDGs(c.dgs)
	c.hashed[2] = sampleDG[2] // on the chip, in the list, not read
	return c, nil
}

func otherCountry(c string) string {
	for _, cc := range issuer.Countries {
		if cc.Alpha2 != c {
			return cc.Alpha2
		}
	}
	return "FR"
}

// alterMRZName changes one letter of the name field of the MRZ inside DG1 (the
// name is not covered by any check digit, so the file still parses).
func alterMRZName(dg1 []byte, m string, src issuer.Source) []byte {
	start := 5 // TD3 / TD2: name starts at position 6 of line 1
	if len(m) == 90 {
		start = 60 // TD1: line 3
	}
	i := bytes.Index(dg1, []byte(m))
	out := append([]byte{}, dg1...)
	p := i + start + src.Intn(3) // the primary identifier has at least 3 letters
	if out[p] == 'Z' {
		out[p] = 'A'
	} else {
		out[p]++
	}
	return out
}

// ---------------------------------------------------------------- attacks

type attack struct {
	name     string
	needTime bool // needs a stated signing time
	sdLevel  bool // SignedData.Verify of the forged SOD against the forged store must fail as well
	prepare  func(c *ctx) (good, bad variant, err error)
}

var deltas = []time.Duration{time.Second, time.Minute, 24 * time.Hour, 400 * 24 * time.Hour}

func evilDG1(c *ctx) ([]byte, error) {
	d, _, err := issuer.BuildDG1(c.src, c.b.Country, c.b.Layout)
	return d, err
}

func attackerPKI(c *ctx, mutCSCA func(*issuer.CertTemplate), name issuer.Name) (*issuer.PKI, error) {
	p := c.pki.Profile
	p.CSCAKey, p.DSKey = auxSpec(c.b, c.b.CSCAKey, 0), auxSpec(c.b, c.b.DSKey, 1)
	if p.CSCAKey.Type == "rsa" && p.DSKey.Type == "rsa" {
		p.DSKey.Index = p.CSCAKey.Index + 1
	}
	p.CSCASig = alignAlg(p.CSCASig, p.CSCAKey)
	p.DSSig = alignAlg(p.DSSig, p.DSKey)
	p.CSCAName, p.CSCAMutate = name, mutCSCA
	return issuer.NewPKI(c.src, p)
}

// alignAlg keeps the algorithm when it fits the key family, else takes the
// family default with the same digest; PSS salts are clamped to the modulus.
func alignAlg(a issuer.SigAlg, k issuer.KeySpec) issuer.SigAlg {
	if (a.Scheme == "ecdsa") != (k.Type == "ec") {
		return issuer.DefaultSigAlg(k, a.Hash)
	}
	if a.Scheme == "pss" {
		if max := issuer.MaxPSSSalt(k.Bits, a.Hash); a.SaltLen > max || (a.SaltLen < 0 && issuer.HashLen(a.Hash) > max) {
			a.SaltLen = max
		}
	}
	return a
}

func reissue(c *ctx, mut func(*issuer.CertTemplate)) ([][]byte, error) {
	x, err := c.pki.ReissueCSCA(mut)
	if err != nil {
		return nil, err
	}
	return [][]byte{x.DER}, nil
}

// anchorAttack builds an attack on the trust anchor: the store holds one
// re-issued certificate of the genuine CSCA key, mutated for bad / good.
func anchorAttack(name string, needTime bool, bad, good func(c *ctx, ct *issuer.CertTemplate)) attack {
	return attack{name: name, needTime: needTime, sdLevel: true, prepare: func(c *ctx) (variant, variant, error) {
		g, b := c.baseVariant(), c.baseVariant()
		var err error
		if g.store, err = reissue(c, func(ct *issuer.CertTemplate) { good(c, ct) }); err != nil {
			return g, b, err
		}
		b.store, err = reissue(c, func(ct *issuer.CertTemplate) { bad(c, ct) })
		return g, b, err
	}}
}

// dsAttack builds an attack on the DS certificate: both variants use a DS
// certificate issued for the genuine DS key, mutated for bad / good.
func dsAttack(name string, needTime bool, bad, good func(c *ctx, dt *issuer.CertTemplate)) attack {
	return attack{name: name, needTime: needTime, sdLevel: true, prepare: func(c *ctx) (variant, variant, error) {
		g, b := c.baseVariant(), c.baseVariant()
		var err error
		if g.signer, err = c.pki.IssueDS(c.pki.DSKey, c.pki.DS.Tmpl.Subject, func(dt *issuer.CertTemplate) { good(c, dt) }); err != nil {
			return g, b, err
		}
		b.signer, err = c.pki.IssueDS(c.pki.DSKey, c.pki.DS.Tmpl.Subject, func(dt *issuer.CertTemplate) { bad(c, dt) })
		return g, b, err
	}}
}

func nop(*ctx, *issuer.CertTemplate) {}

var attacks = []attack{
	{name: "resigned-by-untrusted-ds", sdLevel: true, prepare: func(c *ctx) (variant, variant, error) {
		g, b := c.baseVariant(), c.baseVariant()
		ap, err := attackerPKI(c, nil, issuer.SimpleName(c.b.Country, "Evil Authority", "CSCA", "CSCA "+c.b.Country))
		if err != nil {
			return g, b, err
		}
		e, err := evilDG1(c)
		b.pki, b.hashed[1], b.docDGs[1] = ap, e, e
		return g, b, err
	}},
	{name: "ds-from-ca-copying-subject-and-ski", sdLevel: true, prepare: func(c *ctx) (variant, variant, error) {
		g, b := c.baseVariant(), c.baseVariant()
		ski := c.pki.CSCA.Tmpl.SKI
		ap, err := attackerPKI(c, func(ct *issuer.CertTemplate) { ct.SKI, ct.AKI = ski, ski }, c.pki.CSCA.Tmpl.Subject)
		if err != nil {
			return g, b, err
		}
		e, err := evilDG1(c)
		b.pki, b.hashed[1], b.docDGs[1] = ap, e, e
		return g, b, err
	}},
	// The forger holds no CA key at all: a self-signed certificate over the forger's own key that
	// copies what is public about the trust anchor (subject name, subject key identifier) and signs the
	// security object directly.  Drawn shapes: no AuthorityKeyIdentifier / one naming itself; plain
	// signer usages / CA usages and basicConstraints as the anchor has them.
	{name: "self-signed-signer-posing-as-the-trust-anchor", sdLevel: true, prepare: func(c *ctx) (variant, variant, error) {
		g, b := c.baseVariant(), c.baseVariant()
		k, err := issuer.NewKey(c.src, auxSpec(c.b, c.b.DSKey, 2))
		if err != nil {
			return g, b, err
		}
		if !c.b.DSSig.Fits(k) {
			return g, b, fmt.Errorf("aux key family differs")
		}
		an := c.pki.CSCA.Tmpl
		t := issuer.CertTemplate{
			Serial: issuer.RandomSerial(c.src, 8), Issuer: an.Subject, IssuerDER: an.SubjDER, Subject: an.Subject, SubjDER: an.SubjDER,
			NotBefore: an.NotBefore, NotAfter: an.NotAfter, TimeForm: an.TimeForm, SubjectKey: k, SKI: an.SKI,
			KeyUsage: &issuer.KeyUsage{Bits: []int{issuer.KUDigitalSignature}, Critical: true},
			SigAlg:   alignAlg(c.b.DSSig, k.Spec),
		}
		if c.src.Intn(2) == 1 {
			t.AKI = an.SKI
		}
		if c.src.Intn(2) == 1 {
			t.KeyUsage, t.BasicConstraints = an.KeyUsage, an.BasicConstraints
		}
		x, err := issuer.CreateCertificate(c.src, t, k)
		if err != nil {
			return g, b, err
		}
		e, err := evilDG1(c)
		b.signer, b.signKey, b.hashed[1], b.docDGs[1] = x, k, e, e
		return g, b, err
	}},
	{name: "swapped-ds-certificate", sdLevel: true, prepare: func(c *ctx) (variant, variant, error) {
		g, b := c.baseVariant(), c.baseVariant()
		kb, err := issuer.NewKey(c.src, auxSpec(c.b, c.b.DSKey, 2))
		if err != nil {
			return g, b, err
		}
		dsB, err := c.pki.IssueDS(kb, issuer.SimpleName(c.b.Country, "Verif Authority", "DS", "Document Signer B"), nil)
		if err != nil {
			return g, b, err
		}
		if !c.b.DSSig.Fits(kb) {
			// other key family: the swapped certificate cannot even carry the algorithm; use the genuine family
			return g, b, fmt.Errorf("aux key family differs")
		}
		b.signer, b.signKey = dsB, c.pki.DSKey // valid certificate, but the signature was made with another key
		g.signer = dsB                         // restored: signed with the key of the embedded certificate
		return g, b, nil
	}},
	{name: "signed-with-key-other-than-embedded-ds", sdLevel: true, prepare: func(c *ctx) (variant, variant, error) {
		g, b := c.baseVariant(), c.baseVariant()
		k, err := issuer.NewKey(c.src, auxSpec(c.b, c.b.DSKey, 2))
		if err == nil && !c.b.DSSig.Fits(k) {
			err = fmt.Errorf("aux key family differs")
		}
		b.signKey = k
		return g, b, err
	}},
	{name: "hash-list-altered-not-resigned", sdLevel: true, prepare: func(c *ctx) (variant, variant, error) {
		g, b := c.baseVariant(), c.baseVariant()
		e, err := evilDG1(c)
		if err != nil {
			return g, b, err
		}
		oldH, newH := issuer.Digest(c.b.LDSHash, c.dgs[1]), issuer.Digest(c.b.LDSHash, e)
		b.docDGs[1] = e
		b.mutate = func(s *issuer.CMSSpec) { s.EmitEContent = bytes.Replace(s.EContent, oldH, newH, 1) }
		return g, b, nil
	}},
	{name: "hash-list-altered-digest-attribute-patched-old-signature", sdLevel: true, prepare: func(c *ctx) (variant, variant, error) {
		g, b := c.baseVariant(), c.baseVariant()
		orig, err := c.signSOD(g)
		if err != nil {
			return g, b, err
		}
		e, err := evilDG1(c)
		if err != nil {
			return g, b, err
		}
		b.hashed[1], b.docDGs[1] = e, e // list, content digest attribute and document are consistent ...
		sig := orig.Signers[0].Signature
		b.mutate = func(s *issuer.CMSSpec) { s.Signers[0].Signature = sig } // ... but the signature is the old one
		return g, b, nil
	}},
	{name: "signature-computed-over-econtent-instead-of-attributes", sdLevel: true, prepare: func(c *ctx) (variant, variant, error) {
		g, b := c.baseVariant(), c.baseVariant()
		b.mutate = func(s *issuer.CMSSpec) { s.Signers[0].SignOverContent = true }
		return g, b, nil
	}},
	{name: "dg-altered", prepare: func(c *ctx) (variant, variant, error) {
		g, b := c.baseVariant(), c.baseVariant()
		b.docDGs[1] = alterMRZName(c.dgs[1], c.mrz, c.src)
		return g, b, nil
	}},
	{name: "dg-injected-not-in-hash-list", prepare: func(c *ctx) (variant, variant, error) {
		g, b := c.baseVariant(), c.baseVariant()
		n := []int{11, 14, 15}[c.src.Intn(3)]
		b.omit = []int{n}
		return g, b, nil
	}},
	{name: "dg-replaced-by-other-documents-dg", prepare: func(c *ctx) (variant, variant, error) {
		g, b := c.baseVariant(), c.baseVariant()
		e, err := evilDG1(c)
		b.docDGs[1] = e
		return g, b, err
	}},
	{name: "message-digest-differs-from-econtent-digest", sdLevel: true, prepare: func(c *ctx) (variant, variant, error) {
		g, b := c.baseVariant(), c.baseVariant()
		wrong := issuer.Digest(c.pki.Profile.DSSig.Hash, c.src.Bytes(16))
		b.mutate = func(s *issuer.CMSSpec) { s.Signers[0].MessageDigest = wrong }
		return g, b, nil
	}},
	{name: "content-type-attribute-differs-from-econtenttype", sdLevel: true, prepare: func(c *ctx) (variant, variant, error) {
		g, b := c.baseVariant(), c.baseVariant()
		if c.src.Intn(2) == 0 {
			b.mutate = func(s *issuer.CMSSpec) { s.Signers[0].ContentType = issuer.OidData }
		} else {
			b.mutate = func(s *issuer.CMSSpec) { s.EmitType = issuer.OidLDSSecurityObjectLegacy } // type swapped after signing
		}
		return g, b, nil
	}},
	dsAttack("ds-expired-at-signing-time", true,
		func(c *ctx, dt *issuer.CertTemplate) {
			dt.NotAfter = c.t.Add(-deltas[c.src.Intn(len(deltas))])
			dt.NotBefore = dt.NotAfter.Add(-1000 * 24 * time.Hour)
		},
		func(c *ctx, dt *issuer.CertTemplate) { dt.NotAfter, dt.NotBefore = c.t, c.t.Add(-1000*24*time.Hour) }),
	dsAttack("ds-not-yet-valid-at-signing-time", true,
		func(c *ctx, dt *issuer.CertTemplate) { dt.NotBefore = c.t.Add(deltas[c.src.Intn(len(deltas))]) },
		func(c *ctx, dt *issuer.CertTemplate) { dt.NotBefore = c.t }),
	anchorAttack("csca-expired-at-signing-time", true,
		func(c *ctx, ct *issuer.CertTemplate) { ct.NotAfter = c.t.Add(-deltas[c.src.Intn(len(deltas))]) },
		func(c *ctx, ct *issuer.CertTemplate) { ct.NotAfter = c.t }),
	anchorAttack("csca-not-yet-valid-at-signing-time", true,
		func(c *ctx, ct *issuer.CertTemplate) { ct.NotBefore = c.t.Add(deltas[c.src.Intn(len(deltas))]) },
		func(c *ctx, ct *issuer.CertTemplate) { ct.NotBefore = c.t }),
	anchorAttack("anchor-without-ca-true", false,
		func(c *ctx, ct *issuer.CertTemplate) {
			switch c.src.Intn(3) {
			case 0:
				ct.BasicConstraints = nil
			case 1:
				ct.BasicConstraints = &issuer.BasicConstraints{CA: false, Critical: true}
			default:
				ct.BasicConstraints = &issuer.BasicConstraints{CA: false, HasPath: true, PathLen: 0}
			}
		}, nop),
	anchorAttack("anchor-without-keycertsign", false,
		func(c *ctx, ct *issuer.CertTemplate) {
			switch c.src.Intn(3) {
			case 0:
				ct.KeyUsage = nil
			case 1:
				ct.KeyUsage = &issuer.KeyUsage{Bits: []int{issuer.KUCRLSign}, Critical: true}
			default:
				ct.KeyUsage = &issuer.KeyUsage{Bits: []int{issuer.KUDigitalSignature, issuer.KUCRLSign}, Critical: true}
			}
		},
		func(c *ctx, ct *issuer.CertTemplate) {
			ct.KeyUsage = &issuer.KeyUsage{Bits: []int{issuer.KUKeyCertSign}, Critical: true}
		}),
	anchorAttack("anchor-critical-eku-without-anyeku", false,
		func(c *ctx, ct *issuer.CertTemplate) {
			ct.ExtKeyUsage = &issuer.ExtKeyUsage{OIDs: []string{issuer.OidEKUMasterListSigner}, Critical: true}
		},
		func(c *ctx, ct *issuer.CertTemplate) {
			if c.src.Intn(2) == 0 {
				ct.ExtKeyUsage = &issuer.ExtKeyUsage{OIDs: []string{issuer.OidEKUMasterListSigner, issuer.OidAnyEKU}, Critical: true}
			} else {
				ct.ExtKeyUsage = &issuer.ExtKeyUsage{OIDs: []string{issuer.OidEKUMasterListSigner}, Critical: false}
			}
		}),
	anchorAttack("anchor-unknown-critical-extension", false,
		func(c *ctx, ct *issuer.CertTemplate) {
			ct.Extra = append(ct.Extra, issuer.Extension{OID: issuer.OidExtUnknown, Critical: true, Value: der.Null()})
		},
		func(c *ctx, ct *issuer.CertTemplate) {
			ct.Extra = append(ct.Extra, issuer.Extension{OID: issuer.OidExtUnknown, Critical: false, Value: der.Null()})
		}),
	dsAttack("ds-without-keyusage", false,
		func(c *ctx, dt *issuer.CertTemplate) { dt.KeyUsage = nil }, nop),
	dsAttack("ds-without-digitalsignature", false,
		func(c *ctx, dt *issuer.CertTemplate) {
			dt.KeyUsage = &issuer.KeyUsage{Bits: [][]int{{issuer.KUNonRepudiation}, {issuer.KUKeyEncipherment}, {issuer.KUKeyCertSign, issuer.KUCRLSign}}[c.src.Intn(3)], Critical: true}
		},
		func(c *ctx, dt *issuer.CertTemplate) {
			dt.KeyUsage = &issuer.KeyUsage{Bits: []int{issuer.KUDigitalSignature, issuer.KUNonRepudiation}, Critical: true}
		}),
	dsAttack("ds-unknown-critical-extension", false,
		func(c *ctx, dt *issuer.CertTemplate) {
			dt.Extra = append(dt.Extra, issuer.Extension{OID: issuer.OidExtUnknown, Critical: true, Value: der.Null()})
		},
		func(c *ctx, dt *issuer.CertTemplate) {
			dt.Extra = append(dt.Extra, issuer.Extension{OID: issuer.OidExtUnknown, Critical: false, Value: der.Null()})
		}),
	{name: "anchor-of-other-country-with-same-ski", prepare: func(c *ctx) (variant, variant, error) {
		g, b := c.baseVariant(), c.baseVariant()
		xx := otherCountry(c.b.Country)
		var err error
		if g.store, err = reissue(c, nil); err != nil {
			return g, b, err
		}
		foreign, err := reissue(c, func(ct *issuer.CertTemplate) {
			n := issuer.SimpleName(xx, "Verif Authority", "CSCA", "CSCA "+xx)
			ct.Issuer, ct.Subject = n, n
		})
		if err != nil {
			return g, b, err
		}
		b.store = foreign
		if c.src.Intn(2) == 0 {
			// plus an unrelated CSCA of the right country
			ap, err := attackerPKI(c, nil, issuer.SimpleName(c.b.Country, "Unrelated Authority", "CSCA", "CSCA two"))
			if err != nil {
				return g, b, err
			}
			b.store = append(b.store, ap.CSCA.DER)
		}
		return g, b, nil
	}},
	{name: "dg1-issuing-state-differs-from-ds-issuer-country", prepare: func(c *ctx) (variant, variant, error) {
		g, b := c.baseVariant(), c.baseVariant()
		d, _, err := issuer.BuildDG1(c.src, otherCountry(c.b.Country), c.b.Layout)
		b.hashed[1], b.docDGs[1] = d, d // genuinely signed, only the country disagrees
		return g, b, err
	}},
	{name: "cardsecurity-resigned-by-untrusted-ds", prepare: func(c *ctx) (variant, variant, error) {
		g, b := c.baseVariant(), c.baseVariant()
		ap, err := attackerPKI(c, nil, issuer.SimpleName(c.b.Country, "Evil Authority", "CSCA", "CSCA "+c.b.Country))
		g.card, b.card = &cardVariant{}, &cardVariant{pki: ap}
		return g, b, err
	}},
	// EF.CardSecurity carries its own signing time and may be signed by another DS certificate than
	// EF.SOD: its signer must be inside its validity period at THAT time, whatever the SOD says.
	{name: "cardsecurity-ds-expired-at-its-own-signing-time", needTime: true, prepare: func(c *ctx) (variant, variant, error) {
		g, b := c.baseVariant(), c.baseVariant()
		t2 := c.t.Add(300 * 24 * time.Hour) // CardSecurity signed 300 days after the SOD
		d := deltas[c.src.Intn(len(deltas))]
		good, err := c.pki.IssueDS(c.pki.DSKey, c.pki.DS.Tmpl.Subject, func(dt *issuer.CertTemplate) {
			dt.NotBefore, dt.NotAfter = c.t.Add(-100*24*time.Hour), t2
		})
		if err != nil {
			return g, b, err
		}
		bad, err := c.pki.IssueDS(c.pki.DSKey, c.pki.DS.Tmpl.Subject, func(dt *issuer.CertTemplate) {
			dt.NotBefore, dt.NotAfter = c.t.Add(-100*24*time.Hour), t2.Add(-d) // valid at the SOD's signing time, expired at its own
		})
		g.card, b.card = &cardVariant{signer: good, signingTime: &t2}, &cardVariant{signer: bad, signingTime: &t2}
		return g, b, err
	}},
	{name: "cardsecurity-ds-not-yet-valid-at-its-own-signing-time", needTime: true, prepare: func(c *ctx) (variant, variant, error) {
		g, b := c.baseVariant(), c.baseVariant()
		t2 := c.t.Add(-300 * 24 * time.Hour) // CardSecurity signed 300 days before the SOD
		d := deltas[c.src.Intn(len(deltas))]
		good, err := c.pki.IssueDS(c.pki.DSKey, c.pki.DS.Tmpl.Subject, func(dt *issuer.CertTemplate) {
			dt.NotBefore, dt.NotAfter = t2, c.t.Add(1000*24*time.Hour)
		})
		if err != nil {
			return g, b, err
		}
		bad, err := c.pki.IssueDS(c.pki.DSKey, c.pki.DS.Tmpl.Subject, func(dt *issuer.CertTemplate) {
			dt.NotBefore, dt.NotAfter = t2.Add(d), c.t.Add(1000*24*time.Hour) // valid at the SOD's signing time, not yet at its own
		})
		g.card, b.card = &cardVariant{signer: good, signingTime: &t2}, &cardVariant{signer: bad, signingTime: &t2}
		return g, b, err
	}},
	// DG1 names an issuing state that has no ISO 3166 code (organisations, special codes, unassigned
	// letters): it cannot be "the same issuing country" as any DS certificate's country.
	{name: "dg1-non-iso-issuing-state-under-a-national-chain", prepare: func(c *ctx) (variant, variant, error) {
		g, b := c.baseVariant(), c.baseVariant()
		state := []string{"UNO", "UNA", "UNK", "XOM", "XPO", "XXA", "XXB", "XXC", "XXX", "EUE", "XCC", "XIM", "QQQ", "ZZZ", "AAA"}[c.src.Intn(15)]
		d, _, err := issuer.BuildDG1State(c.src, state, c.b.Layout)
		b.hashed[1], b.docDGs[1] = d, d // genuinely signed by the national DS, only the issuing state is foreign
		return g, b, err
	}},
	// A DS certificate whose issuer name carries no country (issued with the genuine CSCA key - only the
	// generator can make this "issuer error"): there is no issuing country, so no CA certificate "of the
	// same issuing country" exists for it.  The document is a partial read without DG1, so the DG1 / DS
	// country comparison cannot step in.
	{name: "ds-issuer-name-without-country-partial-document", sdLevel: false, prepare: func(c *ctx) (variant, variant, error) {
		g, b := c.baseVariant(), c.baseVariant()
		delete(g.docDGs, 1)
		delete(b.docDGs, 1)
		bad, err := c.pki.IssueDS(c.pki.DSKey, c.pki.DS.Tmpl.Subject, func(dt *issuer.CertTemplate) {
			var n issuer.Name
			for _, rdn := range dt.Issuer {
				keep := true
				for _, av := range rdn {
					if av.OID == issuer.OidCountry {
						keep = false
					}
				}
				if keep {
					n = append(n, rdn)
				}
			}
			dt.Issuer = n
		})
		b.signer = bad
		return g, b, err
	}},
	// A forger without any key alters DG1 and the hash list, keeps the stale signature, and plays with
	// the fields of the CMS structure that no signature covers (versions, digest algorithm set, embedded
	// certificates): none of them may switch the verification off.
	{name: "stale-signature-with-unsigned-cms-field-tweak", sdLevel: true, prepare: func(c *ctx) (variant, variant, error) {
		g, b := c.baseVariant(), c.baseVariant()
		e, err := evilDG1(c)
		if err != nil {
			return g, b, err
		}
		oldH, newH := issuer.Digest(c.b.LDSHash, c.dgs[1]), issuer.Digest(c.b.LDSHash, e)
		b.docDGs[1] = e
		tweak := c.src.Intn(8)
		b.mutate = func(s *issuer.CMSSpec) {
			s.EmitEContent = bytes.Replace(s.EContent, oldH, newH, 1)
			switch tweak {
			case 0:
				s.Signers[0].Version = []int{2, 4, 5, 7, 127}[c.src.Intn(5)]
			case 1:
				s.Version = []int{1, 2, 4, 5, 127}[c.src.Intn(5)]
			case 2:
				s.DigestAlgorithms = []string{"sha1", "sha224", "sha256", "sha384", "sha512"}[c.src.Intn(5):][:1]
			case 3:
				s.Signers[0].Version, s.Version = 2, 1
			case 4:
				s.Signers[0].DigestNull = !s.Signers[0].DigestNull
			case 5:
				s.Signers = append(s.Signers, s.Signers[0]) // the same stale signer twice
			case 6:
				s.Signers[0].Unsigned = append(s.Signers[0].Unsigned, issuer.Attribute{OID: "1.2.840.113549.1.9.6", Values: [][]byte{der.Null()}})
			}
		}
		return g, b, nil
	}},
	{name: "cardsecurity-content-tampered", prepare: func(c *ctx) (variant, variant, error) {
		g, b := c.baseVariant(), c.baseVariant()
		g.card = &cardVariant{}
		b.card = &cardVariant{mutate: func(s *issuer.CMSSpec) {
			s.EmitEContent = lds.SecurityInfos(lds.PACEInfo("0.4.0.127.0.7.2.2.4.2.2", 2, big.NewInt(12)), lds.UnknownInfo("1.3.6.1.4.1.55555.3.1", []byte{1, 2, 3}))
		}}
		return g, b, nil
	}},
	{name: "cardsecurity-signed-with-other-key", prepare: func(c *ctx) (variant, variant, error) {
		g, b := c.baseVariant(), c.baseVariant()
		k, err := issuer.NewKey(c.src, auxSpec(c.b, c.b.DSKey, 2))
		if err == nil && !c.b.DSSig.Fits(k) {
			err = fmt.Errorf("aux key family differs")
		}
		g.card, b.card = &cardVariant{}, &cardVariant{signKey: k}
		return g, b, err
	}},
}

func attackIndex(name string) int {
	for i, a := range attacks {
		if a.name == name {
			return i
		}
	}
	return -1
}

// ---------------------------------------------------------------- running one forgery

// runForgery evaluates attack ai on base b.  Returns a violation message or "".
func runForgery(t failer, check string, b Base, ai int, src issuer.Source) {
	a := attacks[ai]
	if a.needTime {
		b.SigningTime = true
	}
	c, err := newCtx(b, src)
	if err != nil {
		evid.Infra(t, "generator: %v [%s]", err, b.key())
		return
	}
	good, bad, err := a.prepare(c)
	if err != nil {
		evid.Infra(t, "generator (%s): %v [%s]", a.name, err, b.key())
		return
	}
	gin, err := c.assemble(good)
	if err != nil {
		evid.Infra(t, "generator (%s, twin): %v [%s]", a.name, err, b.key())
		return
	}
	bin, err := c.assemble(bad)
	if err != nil {
		evid.Infra(t, "generator (%s, forgery): %v [%s]", a.name, err, b.key())
		return
	}
	// The forgery first: an acceptance is a violation whatever else happens.
	ob := runPA(bin)
	repro := map[string]any{"attack": a.name, "base": b, "forged": bin.repro(), "twin": gin.repro()}
	if ob.Accepted {
		evid.Fail(t, check, repro, "PassiveAuth accepts forgery %q (labelled invalid) [%s]", a.name, b.key())
		return
	}
	// The valid twin must pass, otherwise the rejection above means nothing
	// (infrastructure problem or a C09 matter, never a C01 violation).
	og := runPA(gin)
	if !og.Accepted {
		twinRejected(fmt.Sprintf("valid twin of %s rejected (parse %q, err %q, panic %q) [%s]", a.name, og.ParseErr, og.Err, og.Panic, b.key()))
		return
	}
	evid.CaseFn("forgery:"+a.name, true, a.name+"|"+b.key(), func() any { return map[string]any{"attack": a.name, "issuing_profile": b} })
	evid.Count("scheme:"+b.DSSig.Scheme+"-"+b.DSSig.Hash, 1)
	evid.Count("ds-key:"+keyClass(b.DSKey), 1)
	if ob.Panic != "" {
		evid.Count("forgery-panic", 1)
	}
	if ob.Parsed && ob.Panic == "" {
		switch {
		case a.sdLevel:
			if ok, _, _ := runVerify(ob); ok {
				evid.Fail(t, check, repro, "SignedData.Verify accepts the SOD of forgery %q although PassiveAuth refuses it [%s]", a.name, b.key())
			}
		case bad.card != nil:
			ok := func() (ok bool) {
				defer func() { recover() }()
				_, err := ob.Doc.Mf.CardSecurity.SD.Verify(ob.Pool)
				return err == nil
			}()
			if ok {
				evid.Fail(t, check, repro, "SignedData.Verify accepts the forged CardSecurity of %q [%s]", a.name, b.key())
			}
		}
	}
}

var (
	twinMu    sync.Mutex
	twinNotes int
)

// twinRejected records (without stopping the run) that a valid twin was
// refused: the run becomes inconclusive unless a real violation is found.
func twinRejected(msg string) {
	twinMu.Lock()
	twinNotes++
	n := twinNotes
	twinMu.Unlock()
	evid.Count("forgery-twin-rejected", 1)
	if n <= 3 {
		evid.InfraNote("%s", msg)
	}
}

func keyClass(s issuer.KeySpec) string {
	if s.Type == "rsa" {
		return fmt.Sprintf("rsa%d", s.Bits)
	}
	if s.Explicit {
		return s.Curve + "/explicit"
	}
	return s.Curve + "/named"
}

// TestForgeries: random base profile x attack (quick 1 500, thorough 40 000).
func TestForgeries(t *testing.T) {
	evid.RapidCheck(t, 1500, 40000, func(rt *rapid.T) {
		ch := rapidChooser{rapidSrc{rt}}
		b := drawBase(ch, !evid.Thorough())
		ai := ch.Pick("attack", len(attacks))
		runForgery(rt, "forgeries", b, ai, ch)
	})
}

// TestForgeryMatrix: every attack against every DS-side scheme point (thorough:
// all; quick: every 9th), deterministic.
func TestForgeryMatrix(t *testing.T) {
	type pt struct {
		k issuer.KeySpec
		a issuer.SigAlg
	}
	var pts []pt
	for _, bits := range []int{1024, 2047, 2048, 3072, 4096} {
		for hi, h := range issuer.Hashes {
			pts = append(pts, pt{issuer.RSA(bits, hi%3), issuer.PKCS1(h)})
			s := issuer.HashLen(h)
			if max := issuer.MaxPSSSalt(bits, h); s > max {
				s = max
			}
			pts = append(pts, pt{issuer.RSA(bits, hi%3), issuer.SigAlg{Scheme: "pss", Hash: h, SaltLen: s}})
		}
	}
	for _, cn := range curveNames {
		for hi, h := range issuer.Hashes {
			k := issuer.ECNamed(cn)
			if hi%2 == 1 {
				k = issuer.ECExplicit(cn)
			}
			pts = append(pts, pt{k, issuer.ECDSA(h)})
		}
	}
	stride := evid.Pick(9, 1)
	offset := int(evid.Seed()%int64(stride)+int64(stride)) % stride
	idx := 0
	for pi, p := range pts {
		for ai := range attacks {
			idx++
			if idx%stride != offset || !evid.MineIdx(idx/stride) {
				continue
			}
			seed := fmt.Sprintf("c01-fmatrix/%d/%d", evid.Seed(), idx)
			ch := seedChooser{issuer.NewSeedSource(seed)}
			b := drawBase(ch, true)
			b.DSKey, b.DSSig = p.k, p.a
			cs := pts[(pi*7+ai*3+1)%len(pts)]
			b.CSCAKey, b.CSCASig = cs.k, cs.a
			if b.CSCAKey.Type == "rsa" && b.DSKey.Type == "rsa" && b.CSCAKey.Bits == b.DSKey.Bits {
				b.CSCAKey.Index = b.DSKey.Index + 1
			}
			runForgery(t, "forgery-matrix", b, ai, ch)
		}
	}
}

// ---------------------------------------------------------------- master lists

type mlAttack struct {
	name string
	make func(src issuer.Source, a, b *issuer.PKI, listed [][]byte) (goodML, goodRoot, badML, badRoot []byte, err error)
}

var mlAttacks = []mlAttack{
	{"master-list-signed-under-other-root", func(src issuer.Source, a, b *issuer.PKI, listed [][]byte) ([]byte, []byte, []byte, []byte, error) {
		g, err := a.MasterList(listed, issuer.MasterListOptions{})
		if err != nil {
			return nil, nil, nil, nil, err
		}
		// the attacker's CSCA copies subject and SKI of the genuine root
		x, err := b.MasterList(listed, issuer.MasterListOptions{})
		if err != nil {
			return nil, nil, nil, nil, err
		}
		return g.DER, g.RootDER, x.DER, g.RootDER, nil
	}},
	{"master-list-content-tampered", func(src issuer.Source, a, b *issuer.PKI, listed [][]byte) ([]byte, []byte, []byte, []byte, error) {
		g, err := a.MasterList(listed, issuer.MasterListOptions{})
		if err != nil {
			return nil, nil, nil, nil, err
		}
		o := issuer.MasterListOptions{}
		o.Mutate = func(s *issuer.CMSSpec) {
			s.EmitEContent = issuer.CscaMasterListContent(append(append([][]byte{}, listed...), b.CSCA.DER))
		}
		x, err := a.MasterList(listed, o)
		if err != nil {
			return nil, nil, nil, nil, err
		}
		return g.DER, g.RootDER, x.DER, g.RootDER, nil
	}},
	{"master-list-signer-key-differs-from-certificate", func(src issuer.Source, a, b *issuer.PKI, listed [][]byte) ([]byte, []byte, []byte, []byte, error) {
		g, err := a.MasterList(listed, issuer.MasterListOptions{})
		if err != nil {
			return nil, nil, nil, nil, err
		}
		o := issuer.MasterListOptions{}
		o.SignKey = b.DSKey // the attacker's key; the embedded signer certificate certifies another one
		x, err := a.MasterList(listed, o)
		if err != nil {
			return nil, nil, nil, nil, err
		}
		return g.DER, g.RootDER, x.DER, g.RootDER, nil
	}},
	{"master-list-root-is-not-a-ca", func(src issuer.Source, a, b *issuer.PKI, listed [][]byte) ([]byte, []byte, []byte, []byte, error) {
		g, err := a.MasterList(listed, issuer.MasterListOptions{})
		if err != nil {
			return nil, nil, nil, nil, err
		}
		r, err := a.ReissueCSCA(func(ct *issuer.CertTemplate) {
			ct.BasicConstraints = &issuer.BasicConstraints{CA: false, Critical: true}
		})
		if err != nil {
			return nil, nil, nil, nil, err
		}
		return g.DER, g.RootDER, g.DER, r.DER, nil
	}},
	{"master-list-signer-expired-at-signing-time", func(src issuer.Source, a, b *issuer.PKI, listed [][]byte) ([]byte, []byte, []byte, []byte, error) {
		t := a.Profile.SigningTime
		og := issuer.MasterListOptions{MLSCert: func(mt *issuer.CertTemplate) { mt.NotAfter = t }}
		g, err := a.MasterList(listed, og)
		if err != nil {
			return nil, nil, nil, nil, err
		}
		ob := issuer.MasterListOptions{MLSCert: func(mt *issuer.CertTemplate) { mt.NotAfter = t.Add(-time.Second) }}
		x, err := a.MasterList(listed, ob)
		if err != nil {
			return nil, nil, nil, nil, err
		}
		return g.DER, g.RootDER, x.DER, g.RootDER, nil
	}},
}

func createPool(ml, root []byte) (certs [][]byte, err error) {
	defer func() {
		if r := recover(); r != nil {
			err = fmt.Errorf("panic: %v", r)
		}
	}()
	p, err := cms.CreateCertPoolFromSignedData(ml, root)
	if err != nil {
		return nil, err
	}
	for _, c := range p.All() {
		certs = append(certs, []byte(c.Raw))
	}
	return certs, nil
}

func sameSet(a, b [][]byte) bool {
	if len(a) != len(b) {
		return false
	}
	used := make([]bool, len(b))
outer:
	for _, x := range a {
		for j, y := range b {
			if !used[j] && bytes.Equal(x, y) {
				used[j] = true
				continue outer
			}
		}
		return false
	}
	return true
}

func runMLForgery(t failer, check string, b Base, ai int, src issuer.Source) {
	a := mlAttacks[ai]
	b.SigningTime = true
	p := issuer.Profile{Country: b.Country, CSCAKey: b.CSCAKey, DSKey: b.DSKey, CSCASig: b.CSCASig, DSSig: b.DSSig, LDSHash: b.LDSHash, SigningTime: eras[b.Era]}
	pa, err := issuer.NewPKI(src, p)
	if err != nil {
		evid.Infra(t, "generator: %v", err)
		return
	}
	// attacker hierarchy: same names, same SKI, other keys
	q := p
	q.CSCAKey, q.DSKey = auxSpec(b, b.CSCAKey, 0), auxSpec(b, b.DSKey, 1)
	if q.CSCAKey.Type == "rsa" && q.DSKey.Type == "rsa" {
		q.DSKey.Index = q.CSCAKey.Index + 1
	}
	q.CSCASig, q.DSSig = alignAlg(q.CSCASig, q.CSCAKey), alignAlg(q.DSSig, q.DSKey)
	ski := pa.CSCA.Tmpl.SKI
	q.CSCAMutate = func(ct *issuer.CertTemplate) { ct.SKI, ct.AKI = ski, ski }
	pb, err := issuer.NewPKI(src, q)
	if err != nil {
		evid.Infra(t, "generator: %v", err)
		return
	}
	other, err := attackerPKI(&ctx{b: b, src: src, pki: pa}, nil, issuer.SimpleName(otherCountry(b.Country), "Some Authority", "CSCA", "CSCA"))
	if err != nil {
		evid.Infra(t, "generator: %v", err)
		return
	}
	listed := [][]byte{pa.CSCA.DER, other.CSCA.DER}
	gml, groot, bml, broot, err := a.make(src, pa, pb, listed)
	if err != nil {
		evid.Infra(t, "generator (%s): %v [%s]", a.name, err, b.key())
		return
	}
	repro := map[string]any{"attack": a.name, "base": b, "ml": fmt.Sprintf("%x", bml), "root": fmt.Sprintf("%x", broot), "twin_ml": fmt.Sprintf("%x", gml), "twin_root": fmt.Sprintf("%x", groot)}
	if _, err := createPool(bml, broot); err == nil {
		evid.Fail(t, check, repro, "CreateCertPoolFromSignedData accepts forgery %q [%s]", a.name, b.key())
		return
	}
	got, err := createPool(gml, groot)
	if err != nil {
		twinRejected(fmt.Sprintf("valid twin of %s rejected: %v [%s]", a.name, err, b.key()))
		return
	}
	if !sameSet(got, listed) {
		evid.Fail(t, check, repro, "CreateCertPoolFromSignedData returns other certificates than the signed list (twin of %s) [%s]", a.name, b.key())
		return
	}
	evid.CaseFn("forgery:"+a.name, true, a.name+"|"+b.key(), func() any { return map[string]any{"attack": a.name, "issuing_profile": b} })
}

// TestMasterListForgeries (quick 240, thorough 6 000).
func TestMasterListForgeries(t *testing.T) {
	evid.RapidCheck(t, 240, 6000, func(rt *rapid.T) {
		ch := rapidChooser{rapidSrc{rt}}
		b := drawBase(ch, !evid.Thorough())
		runMLForgery(rt, "master-list-forgeries", b, ch.Pick("attack", len(mlAttacks)), ch)
	})
}
