// C01 — Passive authentication accepts only CSCA-rooted, hash-consistent documents.
//
// (a) semantic forgeries with a known verdict, each paired with its valid twin;
// (b) byte-level and structure-aware mutation of genuine objects with the
// provenance oracle of DESIGN.md section 4 C01; native fuzz targets with the same oracle.
package c01

import (
	"bytes"
	"encoding/hex"
	"fmt"
	"sort"
	"strings"
	"testing"
	"time"

	"github.com/gmrtd/gmrtd/cms"
	"github.com/gmrtd/gmrtd/document"
	"github.com/gmrtd/gmrtd/passiveauth"
	"pgregory.net/rapid"

	"verifharness/evid"
	"verifharness/issuer"
)

const prop = "C01"

func TestMain(m *testing.M) { evid.Main(m, prop) }

// ---------------------------------------------------------------- sources / choosers

type rapidSrc struct{ t *rapid.T }

func (r rapidSrc) Bytes(n int) []byte {
	return rapid.SliceOfN(rapid.Byte(), n, n).Draw(r.t, "rnd")
}
func (r rapidSrc) Intn(n int) int {
	if n <= 1 {
		return 0
	}
	return rapid.IntRange(0, n-1).Draw(r.t, "int")
}

type chooser interface {
	issuer.Source
	Bool(label string) bool
	Pick(label string, n int) int
	Weighted(label string, w ...int) int
}

type rapidChooser struct{ rapidSrc }

func (c rapidChooser) Bool(l string) bool       { return rapid.Bool().Draw(c.t, l) }
func (c rapidChooser) Pick(l string, n int) int { return rapid.IntRange(0, n-1).Draw(c.t, l) }
func (c rapidChooser) Weighted(l string, w ...int) int {
	return weighted(rapid.IntRange(0, sum(w)-1).Draw(c.t, l), w)
}

type seedChooser struct{ *issuer.SeedSource }

func (c seedChooser) Bool(string) bool                { return c.Intn(2) == 1 }
func (c seedChooser) Pick(_ string, n int) int        { return c.Intn(n) }
func (c seedChooser) Weighted(_ string, w ...int) int { return weighted(c.Intn(sum(w)), w) }

func sum(w []int) int {
	s := 0
	for _, x := range w {
		s += x
	}
	return s
}

func weighted(v int, w []int) int {
	for i, x := range w {
		if v < x {
			return i
		}
		v -= x
	}
	return len(w) - 1
}

// ---------------------------------------------------------------- running the library

// input is everything handed to the library for one verification.
type input struct {
	SOD     []byte
	DGs     map[int][]byte
	CardSec []byte
	Store   [][]byte
}

func (in input) repro() map[string]any {
	r := map[string]any{"sod": hex.EncodeToString(in.SOD), "store": hexList(in.Store), "dgs": hexMap(in.DGs)}
	if in.CardSec != nil {
		r["cardsec"] = hex.EncodeToString(in.CardSec)
	}
	return r
}

func hexList(l [][]byte) []string {
	var o []string
	for _, b := range l {
		o = append(o, hex.EncodeToString(b))
	}
	return o
}

func hexMap(m map[int][]byte) map[string]string {
	o := map[string]string{}
	for n, b := range m {
		o[fmt.Sprint(n)] = hex.EncodeToString(b)
	}
	return o
}

// outcome of one PassiveAuth run.
type outcome struct {
	Parsed   bool   // every constructor succeeded
	ParseErr string // which constructor failed
	Accepted bool
	Err      string
	Doc      *document.Document
	Res      *document.PassiveAuthResult
	Pool     *cms.GenericCertPool
	Panic    string
}

// runPA feeds the input to the constructors and to PassiveAuth.  A panic in
// library code is caught and reported in Panic (robustness is C12's subject;
// here a panic simply is not an acceptance).
func runPA(in input) (o outcome) {
	defer func() {
		if r := recover(); r != nil {
			o.Panic = fmt.Sprint(r)
			o.Accepted = false
		}
	}()
	var doc document.Document
	var err error
	if doc.Mf.Lds1.Sod, err = document.NewSOD(in.SOD); err != nil || doc.Mf.Lds1.Sod == nil {
		o.ParseErr = fmt.Sprintf("NewSOD: %v", err)
		return o
	}
	var nums []int
	for n := range in.DGs {
		nums = append(nums, n)
	}
	sort.Ints(nums)
	for _, n := range nums {
		if err = doc.NewDG(n, in.DGs[n]); err != nil {
			o.ParseErr = fmt.Sprintf("NewDG(%d): %v", n, err)
			return o
		}
	}
	if in.CardSec != nil {
		if doc.Mf.CardSecurity, err = document.NewCardSecurity(in.CardSec); err != nil || doc.Mf.CardSecurity == nil {
			o.ParseErr = fmt.Sprintf("NewCardSecurity: %v", err)
			return o
		}
	}
	pool := &cms.GenericCertPool{}
	for i, c := range in.Store {
		if err = pool.Add(c); err != nil {
			o.ParseErr = fmt.Sprintf("pool.Add(%d): %v", i, err)
			return o
		}
	}
	o.Parsed, o.Doc, o.Pool = true, &doc, pool
	res, err := passiveauth.PassiveAuth(&doc, pool)
	o.Res = res
	if err != nil {
		o.Err = err.Error()
	}
	o.Accepted = err == nil && res != nil && res.Success
	if err == nil && (res == nil || !res.Success) {
		o.Err = "no error but Success=false"
	}
	if err != nil && res != nil && res.Success {
		o.Accepted = true // Success reported together with an error: still a report of success
		o.Err = "Success=true WITH error: " + err.Error()
	}
	return o
}

// heldDGs returns the raw data-group files the Document actually holds (a
// constructor may decide that an input is "no file", e.g. empty bytes).
func heldDGs(doc *document.Document) map[int][]byte {
	l := doc.Mf.Lds1
	m := map[int][]byte{}
	put := func(n int, present bool, raw []byte) {
		if present {
			m[n] = raw
		}
	}
	put(1, l.Dg1 != nil, rawOf(l.Dg1 != nil, func() []byte { return l.Dg1.RawData }))
	put(2, l.Dg2 != nil, rawOf(l.Dg2 != nil, func() []byte { return l.Dg2.RawData }))
	put(7, l.Dg7 != nil, rawOf(l.Dg7 != nil, func() []byte { return l.Dg7.RawData }))
	put(11, l.Dg11 != nil, rawOf(l.Dg11 != nil, func() []byte { return l.Dg11.RawData }))
	put(12, l.Dg12 != nil, rawOf(l.Dg12 != nil, func() []byte { return l.Dg12.RawData }))
	put(13, l.Dg13 != nil, rawOf(l.Dg13 != nil, func() []byte { return l.Dg13.RawData }))
	put(14, l.Dg14 != nil, rawOf(l.Dg14 != nil, func() []byte { return l.Dg14.RawData }))
	put(15, l.Dg15 != nil, rawOf(l.Dg15 != nil, func() []byte { return l.Dg15.RawData }))
	put(16, l.Dg16 != nil, rawOf(l.Dg16 != nil, func() []byte { return l.Dg16.RawData }))
	return m
}

func rawOf(present bool, f func() []byte) []byte {
	if !present {
		return nil
	}
	return f()
}

// runVerify is the second observation point: SignedData.Verify of the parsed
// SOD against the full store.
func runVerify(o outcome) (ok bool, chain [][]byte, msg string) {
	defer func() {
		if r := recover(); r != nil {
			ok, msg = false, fmt.Sprint("panic: ", r)
		}
	}()
	chain, err := o.Doc.Mf.Lds1.Sod.SD.Verify(o.Pool)
	if err != nil {
		return false, nil, err.Error()
	}
	return true, chain, ""
}

// ---------------------------------------------------------------- provenance oracle

// genuine is one object really signed by the issuer: the exact octets that
// were authenticated.
type genuine struct {
	Name        string
	SignedAttrs []byte // DER SET the DS signed
	EContent    []byte
	DSTBS       []byte
	DSDER       []byte
	HashAlg     string // LDS hash (SOD only)
	List        map[int][]byte
	SigningTime *time.Time
	Country     string
}

func genuineOf(name string, sd *issuer.SignedData, country string, isSOD bool) (*genuine, error) {
	if len(sd.Signers) != 1 {
		return nil, fmt.Errorf("genuine object with %d signers", len(sd.Signers))
	}
	g := &genuine{Name: name, SignedAttrs: sd.Signers[0].SignedAttrs, EContent: sd.EContent,
		DSTBS: sd.Signers[0].Cert.TBS, DSDER: sd.Signers[0].Cert.DER, Country: country, SigningTime: sd.Spec.Signers[0].SigningTime}
	// self-check: what we call authenticated is internally consistent
	v, err := issuer.ParseSignedData(sd.ContentInfo, false)
	if err != nil {
		return nil, err
	}
	dn := issuer.HashNameByOID(v.Signers[0].DigestAlgOID)
	if !bytes.Equal(v.Signers[0].MessageDigest, issuer.Digest(dn, g.EContent)) {
		return nil, fmt.Errorf("genuine object %s: messageDigest != H(eContent)", name)
	}
	if isSOD {
		_, hoid, list, err := issuer.ParseHashList(g.EContent)
		if err != nil {
			return nil, err
		}
		g.HashAlg = issuer.HashNameByOID(hoid)
		g.List = map[int][]byte{}
		for _, e := range list {
			g.List[e.Number] = e.Hash
		}
	}
	return g, nil
}

// provenance checks an accepted SignedData against the genuine objects.
// sd/chain are what the library parsed / returned; docDGs are the raw files
// held by the document (nil for non-SOD objects); store is the trust store in
// use.  It returns "" when everything the library relied on was really signed.
func provenance(what string, sd *cms.SignedData, chain [][]byte, docDGs map[int][]byte, set []*genuine, store [][]byte) string {
	if sd == nil {
		return what + ": accepted without a parsed SignedData"
	}
	if len(sd.SignerInfos) == 0 {
		return what + ": accepted with no SignerInfo"
	}
	if len(chain) != 2*len(sd.SignerInfos) {
		return fmt.Sprintf("%s: chain has %d certificates for %d signer(s)", what, len(chain), len(sd.SignerInfos))
	}
	for i := range sd.SignerInfos {
		attrs := sd.SignerInfos[i].AuthenticatedAttributes.SetOfAsnBytes()
		var g *genuine
		for _, x := range set {
			if bytes.Equal(attrs, x.SignedAttrs) {
				g = x
				break
			}
		}
		if g == nil {
			return fmt.Sprintf("%s: accepted signed attributes nobody signed: %s", what, hex.EncodeToString(attrs))
		}
		if !bytes.Equal(sd.Content.EContent, g.EContent) {
			return fmt.Sprintf("%s: accepted eContent differs from the signed one (%s)", what, g.Name)
		}
		// own recomputation of messageDigest == H(eContent) from the octets the library used
		sa, err := issuer.ParseSignedAttrs(attrs)
		if err != nil {
			return what + ": harness cannot read the (genuine) signed attributes: " + err.Error()
		}
		siDigest := issuer.HashNameByOID(sd.SignerInfos[i].DigestAlgorithm.Algorithm.String())
		if siDigest == "" || !bytes.Equal(sa.MessageDigest, issuer.Digest(siDigest, sd.Content.EContent)) {
			return fmt.Sprintf("%s: messageDigest is not the %s digest of the accepted eContent", what, sd.SignerInfos[i].DigestAlgorithm.Algorithm)
		}
		ds := chain[2*i]
		certs, err := cms.ParseCertificates(ds)
		if err != nil || len(certs) != 1 {
			return what + ": chain[0] is not one certificate"
		}
		if !bytes.Equal(certs[0].TbsCertificate.Raw, g.DSTBS) {
			return fmt.Sprintf("%s: the signer TBSCertificate the library verified is not the genuine one (%s)", what, g.Name)
		}
		anchor := chain[2*i+1]
		found := false
		for _, s := range store {
			if bytes.Equal(s, anchor) {
				found = true
			}
		}
		if !found {
			return what + ": chain anchor is not a certificate of the supplied trust store"
		}
		if docDGs != nil {
			for n, b := range docDGs {
				h, ok := g.List[n]
				if !ok {
					return fmt.Sprintf("%s: document carries DG%d which is not in the signed hash list", what, n)
				}
				if !bytes.Equal(h, issuer.Digest(g.HashAlg, b)) {
					return fmt.Sprintf("%s: DG%d does not hash to the signed value", what, n)
				}
			}
		}
	}
	return ""
}

// anchorSemantics evaluates an anchor the library used with the harness's own
// reader: "" = acceptable or unreadable for us (verdict withheld, second value
// false), else the reason it must not have been used.
func anchorSemantics(anchor []byte, at *time.Time, country string) (reason string, readable bool) {
	ci, err := issuer.ParseCertificate(anchor)
	if err != nil {
		return "", false
	}
	if ok, why := ci.AcceptableCA(at); !ok {
		return why, true
	}
	if country != "" && !strings.EqualFold(ci.IssuerCountry, country) {
		return fmt.Sprintf("issuer country %q is not the document's country %q", ci.IssuerCountry, country), true
	}
	return "", true
}

type failer interface {
	Helper()
	Fatalf(format string, args ...any)
	Logf(format string, args ...any)
}

var _ failer = (*testing.T)(nil)
