package c01

import (
	"encoding/hex"
	"testing"

	"verifharness/evid"
)

// Native fuzz targets (thorough tier only).  Seeds: the genuine objects of the
// fixed quick worlds.  Oracle: the provenance oracle of evalMutation, applied
// against every quick world (the input is tried as EF.SOD of each of them).

func fuzzWorlds(t testing.TB) []*world {
	var ws []*world
	for _, s := range quickWorlds {
		w, err := getWorld(s)
		if err != nil {
			t.Fatalf("INFRA: world %s: %v", s.Name, err)
		}
		ws = append(ws, w)
	}
	return ws
}

func FuzzSODMutation(f *testing.F) {
	for _, w := range fuzzWorlds(f) {
		f.Add(w.sod.DER)
		f.Add(w.sod2.DER)
	}
	f.Fuzz(func(t *testing.T, data []byte) {
		if len(data) > 1<<16 {
			return
		}
		for _, w := range fuzzWorlds(t) {
			if _, _, v := evalMutation(w, "sod", data); v != "" {
				evid.Fail(t, "fuzz-sod", Mut{World: w.spec.Name, Target: "sod", Op: "fuzz", Bytes: hex.EncodeToString(data)}, "%s [world %s]", v, w.spec.Name)
			}
		}
	})
}

func FuzzMasterList(f *testing.F) {
	for _, w := range fuzzWorlds(f) {
		f.Add(w.ml.DER)
	}
	f.Fuzz(func(t *testing.T, data []byte) {
		if len(data) > 1<<16 {
			return
		}
		for _, w := range fuzzWorlds(t) {
			if _, _, v := evalMutation(w, "ml", data); v != "" {
				evid.Fail(t, "fuzz-masterlist", Mut{World: w.spec.Name, Target: "ml", Op: "fuzz", Bytes: hex.EncodeToString(data)}, "%s [world %s]", v, w.spec.Name)
			}
		}
	})
}
