package c01

import (
	"encoding/hex"
	"testing"

	"verifharness/evid"
)

// Native fuzz targets (thorough tier only).  Seeds: the genuine objects of
// three fixed worlds.  Oracle: the provenance oracle of evalMutation, applied
// against each of those worlds (the input is tried as EF.SOD / master list of
// every one of them).

// lyingLength mirrors the traversal of gmrtd's tlv.Decode / tlv.Unwrap without
// allocating and reports whether the input falls into the class of the OPEN
// C12 finding F7a (a declared definite length >= 512 KiB that exceeds the
// bytes remaining: the library allocates it before checking).  Such inputs
// kill the process where memory is limited; they are C12's subject and are
// excluded here while that finding is open.
func lyingLength(data []byte) bool {
	nodes := 0
	var walk func(b []byte, depth int, indefinite bool) (rest []byte, lying, stop bool)
	walk = func(b []byte, depth int, indefinite bool) ([]byte, bool, bool) {
		if depth > 50 {
			return nil, false, true
		}
		for len(b) > 0 {
			// tag
			tag := uint32(b[0])
			b = b[1:]
			if tag&0x1f == 0x1f {
				for {
					if tag&0xFF000000 != 0 || len(b) == 0 {
						return nil, false, true
					}
					t := b[0]
					b = b[1:]
					tag = tag<<8 + uint32(t)
					if t&0x80 == 0 {
						break
					}
				}
			}
			// length
			if len(b) == 0 {
				return nil, false, true
			}
			l0 := b[0]
			b = b[1:]
			length := -1
			switch {
			case l0 <= 0x7f:
				length = int(l0)
			case l0 == 0x80:
			case l0 <= 0x84:
				n := int(l0 - 0x80)
				if len(b) < n {
					return nil, false, true
				}
				length = 0
				for _, c := range b[:n] {
					length = length<<8 | int(c)
				}
				b = b[n:]
			default:
				return nil, false, true
			}
			if tag == 0 && length == 0 {
				return b, false, false
			}
			if nodes++; nodes > 10000 {
				return nil, false, true
			}
			first := tag
			for first > 0xff {
				first >>= 8
			}
			constructed := first&0x20 != 0
			if length > len(b) {
				return nil, length >= 512*1024, true
			}
			switch {
			case constructed && length < 0:
				rest, lying, stop := walk(b, depth+1, true)
				if lying || stop {
					return nil, lying, true
				}
				b = rest
			case constructed:
				_, lying, stop := walk(b[:length], depth+1, false)
				if lying || stop {
					return nil, lying, true
				}
				b = b[length:]
			case length < 0:
				return nil, false, true
			default:
				b = b[length:]
			}
		}
		return b, false, false
	}
	_, lying, _ := walk(data, 0, false)
	return lying
}

const c12F7a = "F7a-lying-length-alloc"

func fuzzWorlds(t testing.TB) []*world {
	var ws []*world
	for _, s := range quickWorlds[:3] { // P-256 DER + CardSecurity, RSA-2048 v1/SKI/unsigned attrs/twin store, brainpool explicit indefinite/link store
		w, err := getWorld(s)
		if err != nil {
			t.Fatalf("INFRA: world %s: %v", s.Name, err)
		}
		ws = append(ws, w)
	}
	return ws
}

func FuzzSODMutation(f *testing.F) {
	for _, w := range fuzzWorlds(f) {
		f.Add(w.sod.DER)
		f.Add(w.sod2.DER)
	}
	f.Fuzz(func(t *testing.T, data []byte) {
		if len(data) > 1<<16 || (evid.Open("C12", c12F7a) && lyingLength(data)) {
			return
		}
		for _, w := range fuzzWorlds(t) {
			if _, _, v := evalMutation(w, "sod", data); v != "" {
				evid.Fail(t, "fuzz-sod", Mut{World: w.spec.Name, Target: "sod", Op: "fuzz", Bytes: hex.EncodeToString(data)}, "%s [world %s]", v, w.spec.Name)
			}
		}
	})
}

func FuzzMasterList(f *testing.F) {
	for _, w := range fuzzWorlds(f) {
		f.Add(w.ml.DER)
	}
	f.Fuzz(func(t *testing.T, data []byte) {
		if len(data) > 1<<16 {
			return
		}
		for _, w := range fuzzWorlds(t) {
			if _, _, v := evalMutation(w, "ml", data); v != "" {
				evid.Fail(t, "fuzz-masterlist", Mut{World: w.spec.Name, Target: "ml", Op: "fuzz", Bytes: hex.EncodeToString(data)}, "%s [world %s]", v, w.spec.Name)
			}
		}
	})
}
