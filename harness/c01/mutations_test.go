package c01

import (
	"bytes"
	"encoding/hex"
	"encoding/json"
	"fmt"
	"os"
	"sync"
	"testing"
	"time"

	"github.com/gmrtd/gmrtd/document"
	"pgregory.net/rapid"

	"verifharness/evid"
	"verifharness/issuer"
	"verifharness/ref/ber"
	"verifharness/ref/der"
)

func sampleDocument() (map[int][]byte, error) {
	d, err := document.SampleDocument()
	if err != nil {
		return nil, err
	}
	l := d.Mf.Lds1
	return map[int][]byte{2: l.Dg2.RawData, 7: l.Dg7.RawData, 11: l.Dg11.RawData, 12: l.Dg12.RawData, 13: l.Dg13.RawData,
		14: l.Dg14.RawData, 15: l.Dg15.RawData, 16: l.Dg16.RawData}, nil
}

// ---------------------------------------------------------------- genuine worlds

// wspec describes a fixed genuine world (its key material comes from a seed
// that depends only on the name, so worlds are identical in every run and a
// rapid fail file replays exactly).
type wspec struct {
	Name            string
	CSCAKey, DSKey  issuer.KeySpec
	CSCASig, DSSig  issuer.SigAlg
	Hash            string
	SID, LDSVersion int
	Enc             int  // 0 DER, 1 indefinite, 2 non-minimal
	NoTime          bool // no signing-time attribute
	Extras          int  // 0 none, 1 CSCA embedded, 2 second DS embedded
	Store           int  // 0 single, 1 expired twin first, 2 link + root, 3 foreign same-SKI first
	Unsigned        bool
	SIDVariant      bool
	DG2             bool
	CardSec         bool
}

var quickWorlds = []wspec{
	{Name: "p256", CSCAKey: issuer.ECNamed("P-256"), DSKey: issuer.ECNamed("P-256"), CSCASig: issuer.ECDSA("sha256"), DSSig: issuer.ECDSA("sha256"), Hash: "sha256", CardSec: true},
	{Name: "rsa2048-v1-ski", CSCAKey: issuer.RSA(2048, 0), DSKey: issuer.RSA(2048, 1), CSCASig: issuer.PKCS1("sha256"), DSSig: issuer.PKCS1("sha256"), Hash: "sha256",
		SID: 1, LDSVersion: 1, Extras: 1, Store: 1, Unsigned: true, DG2: true},
	{Name: "bp256-explicit-indefinite", CSCAKey: issuer.ECExplicit("brainpoolP256r1"), DSKey: issuer.ECExplicit("brainpoolP256r1"), CSCASig: issuer.ECDSA("sha256"), DSSig: issuer.ECDSA("sha256"),
		Hash: "sha256", Enc: 1, Store: 2, CardSec: true},
	{Name: "rsa2048-pss-nonminimal", CSCAKey: issuer.RSA(2048, 2), DSKey: issuer.RSA(2048, 0), CSCASig: issuer.PSS("sha256"), DSSig: issuer.PSS("sha256"), Hash: "sha512", Enc: 2, Store: 3},
	{Name: "p384-notime", CSCAKey: issuer.ECNamed("P-384"), DSKey: issuer.ECExplicit("P-384"), CSCASig: issuer.ECDSA("sha384"), DSSig: issuer.ECDSA("sha384"), Hash: "sha384", NoTime: true, LDSVersion: 1},
	{Name: "rsa1024-sha1-sidvariant", CSCAKey: issuer.RSA(1024, 0), DSKey: issuer.RSA(1024, 1), CSCASig: issuer.PKCS1("sha1"), DSSig: issuer.PKCS1("sha1"), Hash: "sha1", Extras: 2, SIDVariant: true},
}

func thoroughWorlds() []wspec {
	out := append([]wspec{}, quickWorlds...)
	i := 0
	for _, c := range curveNames {
		for _, ex := range []bool{false, true} {
			k := issuer.ECNamed(c)
			if ex {
				k = issuer.ECExplicit(c)
			}
			h := issuer.Hashes[i%5]
			out = append(out, wspec{Name: fmt.Sprintf("%s-%v", c, ex), CSCAKey: k, DSKey: k, CSCASig: issuer.ECDSA(h), DSSig: issuer.ECDSA(issuer.Hashes[(i+2)%5]), Hash: issuer.Hashes[(i+1)%5],
				SID: i % 2, LDSVersion: (i / 2) % 2, Enc: i % 3, Store: i % 4, Extras: i % 3, CardSec: i%3 == 0})
			i++
		}
	}
	for _, bits := range []int{1024, 2047, 3072, 4096} {
		for hi, h := range issuer.Hashes {
			a := issuer.PKCS1(h)
			if hi%2 == 1 {
				a = issuer.SigAlg{Scheme: "pss", Hash: h, SaltLen: issuer.HashLen(h)}
				if max := issuer.MaxPSSSalt(bits, h); a.SaltLen > max {
					a.SaltLen = max
				}
			}
			out = append(out, wspec{Name: fmt.Sprintf("rsa%d-%s", bits, a), CSCAKey: issuer.RSA(bits, 0), DSKey: issuer.RSA(bits, 1), CSCASig: a, DSSig: a, Hash: h,
				SID: i % 2, LDSVersion: (i / 2) % 2, Enc: i % 3, Store: i % 4, Extras: i % 3, CardSec: i%4 == 0})
			i++
		}
	}
	return out
}

func worldSpecs() []wspec {
	if evid.Thorough() {
		return thoroughWorlds()
	}
	return quickWorlds
}

type world struct {
	spec    wspec
	pki     *issuer.PKI
	country string
	t       time.Time
	dgs     map[int][]byte // files loaded into the document (all in the hash list of sod)
	sod     *issuer.SignedData
	sod2    *issuer.SignedData // second genuine SOD of the same DS for another holder (other DG1)
	dgs2    map[int][]byte
	card    *issuer.SignedData
	store   [][]byte
	ml      *issuer.MasterList
	sodSet  []*genuine
	cardSet []*genuine
	trees   map[string][]*mnode // parsed genuine objects by target name
}

var (
	worldMu    sync.Mutex
	worldCache = map[string]*world{}
)

func getWorld(s wspec) (*world, error) {
	worldMu.Lock()
	defer worldMu.Unlock()
	if w, ok := worldCache[s.Name]; ok {
		return w, nil
	}
	w, err := buildWorld(s)
	if err != nil {
		return nil, err
	}
	worldCache[s.Name] = w
	return w, nil
}

func buildWorld(s wspec) (*world, error) {
	src := issuer.NewSeedSource("c01-world/" + s.Name)
	w := &world{spec: s, country: "NL", t: time.Date(2024, 6, 1, 12, 0, 0, 0, time.UTC), trees: map[string][]*mnode{}}
	p := issuer.Profile{Country: w.country, CSCAKey: s.CSCAKey, DSKey: s.DSKey, CSCASig: s.CSCASig, DSSig: s.DSSig, LDSHash: s.Hash, SigningTime: w.t}
	var err error
	if w.pki, err = issuer.NewPKI(src, p); err != nil {
		return nil, err
	}
	b := Base{Country: w.country, CSCAKey: s.CSCAKey, DSKey: s.DSKey}
	dg1, _, err := issuer.BuildDG1(src, w.country, "TD3")
	if err != nil {
		return nil, err
	}
	dg1b, _, err := issuer.BuildDG1(src, w.country, "TD3")
	if err != nil {
		return nil, err
	}
	w.dgs = map[int][]byte{1: dg1, 11: sampleDG[11], 14: sampleDG[14], 15: sampleDG[15]}
	if s.DG2 {
		w.dgs[2] = sampleDG[2]
	}
	w.dgs2 = cloneDGs(w.dgs)
	w.dgs2[1] = dg1b

	// trust store
	switch s.Store {
	case 0:
		w.store = [][]byte{w.pki.CSCA.DER}
	case 1:
		twin, err := w.pki.ReissueCSCA(func(ct *issuer.CertTemplate) { ct.NotBefore, ct.NotAfter = w.t.AddDate(-9, 0, 0), w.t.Add(-time.Hour) })
		if err != nil {
			return nil, err
		}
		w.store = [][]byte{twin.DER, w.pki.CSCA.DER}
	case 2:
		op := p
		op.CSCAKey, op.DSKey = auxSpec(b, s.CSCAKey, 0), issuer.ECNamed("P-256")
		op.CSCASig, op.DSSig = alignAlg(p.CSCASig, op.CSCAKey), issuer.ECDSA("sha256")
		op.CSCAName = issuer.SimpleName(w.country, "Verif Authority", "CSCA", "CSCA previous")
		old, err := issuer.NewPKI(src, op)
		if err != nil {
			return nil, err
		}
		link, err := w.pki.IssueLinkTo(old, nil)
		if err != nil {
			return nil, err
		}
		w.store = [][]byte{old.CSCA.DER, link.DER, w.pki.CSCA.DER}
	case 3:
		fp := p
		fp.Country = "FR"
		fp.CSCAKey, fp.DSKey = auxSpec(b, s.CSCAKey, 0), issuer.ECNamed("P-256")
		fp.CSCASig, fp.DSSig = alignAlg(p.CSCASig, fp.CSCAKey), issuer.ECDSA("sha256")
		ski := w.pki.CSCA.Tmpl.SKI
		fp.CSCAMutate = func(ct *issuer.CertTemplate) { ct.SKI, ct.AKI = ski, ski }
		f, err := issuer.NewPKI(src, fp)
		if err != nil {
			return nil, err
		}
		w.store = [][]byte{f.CSCA.DER, w.pki.CSCA.DER}
	}

	// EF.SOD (two of them), EF.CardSecurity
	o := issuer.SODOptions{LDSVersion: s.LDSVersion, ExtraHashes: map[int][]byte{3: issuer.Digest(s.Hash, []byte("dg3"))}}
	o.SID, o.NoSigningTime = issuer.SIDForm(s.SID), s.NoTime
	switch s.Enc {
	case 1:
		o.Encoding = issuer.AllLevels(der.Indefinite)
		delete(o.Encoding, issuer.LvOuter77)
	case 2:
		o.Encoding = issuer.AllLevels(der.LongNonMinimal(1))
	}
	switch s.Extras {
	case 1:
		o.ExtraCerts = [][]byte{w.pki.CSCA.DER}
	case 2:
		k2, err := issuer.NewKey(src, auxSpec(b, s.DSKey, 2))
		if err != nil {
			return nil, err
		}
		ds2, err := w.pki.IssueDS(k2, issuer.SimpleName(w.country, "Verif Authority", "DS", "Document Signer 2"), nil)
		if err != nil {
			return nil, err
		}
		o.ExtraCerts = [][]byte{ds2.DER}
	}
	if s.Unsigned {
		o.Unsigned = []issuer.Attribute{{OID: issuer.OidAttrUnknown, Values: [][]byte{der.OctetString([]byte("unsigned attribute: free for all"))}}}
	}
	if s.SIDVariant && s.SID == 0 {
		o.SIDName = &issuer.NameVariant{Reverse: true, Retype: true, Type: issuer.UTF8}
	}
	hashed := cloneDGs(w.dgs)
	if !s.DG2 {
		hashed[2] = sampleDG[2]
	}
	if w.sod, err = w.pki.SignSODDetailed(hashed, o); err != nil {
		return nil, err
	}
	hashed2 := cloneDGs(hashed)
	hashed2[1] = dg1b
	if w.sod2, err = w.pki.SignSODDetailed(hashed2, o); err != nil {
		return nil, err
	}
	for i, sd := range []*issuer.SignedData{w.sod, w.sod2} {
		g, err := genuineOf(fmt.Sprintf("%s/sod%d", s.Name, i+1), sd, w.country, true)
		if err != nil {
			return nil, err
		}
		w.sodSet = append(w.sodSet, g)
	}
	if s.CardSec {
		co := issuer.CMSOptions{SID: issuer.SIDForm(s.SID), NoSigningTime: s.NoTime}
		if w.card, err = w.pki.SignCardSecurityDetailed(cardSecInfos, co); err != nil {
			return nil, err
		}
		g, err := genuineOf(s.Name+"/cardsec", w.card, w.country, false)
		if err != nil {
			return nil, err
		}
		w.cardSet = []*genuine{g}
	}
	// master list
	others, err := attackerPKI(&ctx{b: b, src: src, pki: w.pki}, nil, issuer.SimpleName("FR", "Autre", "CSCA", "CSCA FR"))
	if err != nil {
		return nil, err
	}
	if w.ml, err = w.pki.MasterList([][]byte{w.pki.CSCA.DER, others.CSCA.DER}, issuer.MasterListOptions{}); err != nil {
		return nil, err
	}

	// the genuine world must verify, and the structure-aware mutator must be
	// able to reproduce every genuine object exactly
	in := w.input()
	if o := runPA(in); !o.Accepted {
		return nil, fmt.Errorf("genuine world %s is rejected: parse %q err %q panic %q", s.Name, o.ParseErr, o.Err, o.Panic)
	}
	if got, err := createPool(w.ml.DER, w.ml.RootDER); err != nil || !sameSet(got, w.ml.Certs) {
		return nil, fmt.Errorf("genuine master list of %s is rejected: %v", s.Name, err)
	}
	for name, obj := range w.objects() {
		tr, err := parseTree(obj)
		isDG := len(name) > 2 && name[:2] == "dg"
		if err != nil || !bytes.Equal(encodeTree(tr), obj) {
			if isDG {
				continue // LDS files with ICAO's two-octet tags below 31: byte-level mutation only
			}
			return nil, fmt.Errorf("world %s: harness cannot reproduce genuine %s through its tree (%v)", s.Name, name, err)
		}
		w.trees[name] = tr
	}
	return w, nil
}

func (w *world) input() input {
	in := input{SOD: w.sod.DER, DGs: cloneDGs(w.dgs), Store: append([][]byte{}, w.store...)}
	if w.card != nil {
		in.CardSec = w.card.DER
	}
	return in
}

// objects lists the genuine byte strings that can be mutated, by target name.
func (w *world) objects() map[string][]byte {
	m := map[string][]byte{"sod": w.sod.DER, "sod2": w.sod2.DER, "ml": w.ml.DER, "root": w.ml.RootDER}
	if w.card != nil {
		m["cardsec"] = w.card.DER
	}
	for n, b := range w.dgs {
		if n != 2 { // DG2 (a photograph) is mutated byte-wise only
			m[fmt.Sprintf("dg%d", n)] = b
		}
	}
	for i, c := range w.store {
		m[fmt.Sprintf("store%d", i)] = c
	}
	return m
}

// ---------------------------------------------------------------- structure-aware trees

// mnode is a mutable BER tree that remembers the length form of every element,
// so an untouched tree re-encodes to exactly the input.  OCTET STRING / BIT
// STRING values that themselves hold BER are opened (inner) so that mutations
// reach the LDS security object, extension values and ECDSA signatures.
type mnode struct {
	tag    []byte
	cons   bool
	kids   []*mnode
	val    []byte
	form   der.LenForm
	inner  bool   // primitive container: kids encode into the value
	prefix []byte // BIT STRING: the unused-bits octet
}

func minLenOctets(n int) int {
	if n < 128 {
		return 1
	}
	k := 0
	for v := n; v > 0; v >>= 8 {
		k++
	}
	return 1 + k
}

func fromBER(n *ber.Node, depth int) *mnode {
	m := &mnode{tag: append([]byte{}, n.TagBytes...), cons: n.Constructed}
	switch {
	case n.Indefinite:
		m.form = der.Indefinite
	case n.LenOctets != minLenOctets(len(n.Value)):
		sig := minLenOctets(len(n.Value)) - 1
		if len(n.Value) < 128 {
			sig = 1
		}
		m.form = der.LongNonMinimal(n.LenOctets - 1 - sig)
	}
	if n.Constructed {
		for _, k := range n.Children {
			m.kids = append(m.kids, fromBER(k, depth+1))
		}
		return m
	}
	m.val = append([]byte{}, n.Value...)
	if depth < 12 && (n.Tag == der.TagOctetString || n.Tag == der.TagBitString) {
		body := m.val
		if n.Tag == der.TagBitString {
			if len(body) < 1 || body[0] != 0 {
				return m
			}
			body = body[1:]
		}
		if len(body) >= 2 && (body[0] == 0x30 || body[0] == 0x31 || body[0] == 0x04 || body[0] == 0x03) {
			if sub, err := ber.Parse(body, ber.Options{}); err == nil && len(sub) > 0 {
				var kids []*mnode
				for _, k := range sub {
					kids = append(kids, fromBER(k, depth+1))
				}
				if bytes.Equal(encodeTree(kids), body) {
					m.inner, m.kids = true, kids
					if n.Tag == der.TagBitString {
						m.prefix = []byte{0}
					}
				}
			}
		}
	}
	return m
}

func parseTree(b []byte) ([]*mnode, error) {
	nodes, err := ber.Parse(b, ber.Options{})
	if err != nil {
		// ICAO data-group tags such as 5F0E are not shortest-form identifiers: read them as they stand
		if nodes, err = ber.Parse(b, ber.Options{Lenient: true}); err != nil {
			return nil, err
		}
	}
	var out []*mnode
	for _, n := range nodes {
		out = append(out, fromBER(n, 0))
	}
	return out, nil
}

func (m *mnode) encode() []byte {
	content := m.val
	if m.cons || m.inner {
		content = append(append([]byte{}, m.prefix...), encodeTree(m.kids)...)
	}
	return der.TLVLen(m.tag, content, m.form)
}

func encodeTree(l []*mnode) []byte {
	var out []byte
	for _, m := range l {
		out = append(out, m.encode()...)
	}
	return out
}

func (m *mnode) clone() *mnode {
	c := *m
	c.tag, c.val, c.prefix = append([]byte{}, m.tag...), append([]byte{}, m.val...), append([]byte{}, m.prefix...)
	c.kids = cloneTree(m.kids)
	return &c
}

func cloneTree(l []*mnode) []*mnode {
	var out []*mnode
	for _, m := range l {
		out = append(out, m.clone())
	}
	return out
}

// slot addresses one element: the list it lives in and its index.
type slot struct {
	list *[]*mnode
	idx  int
}

func collect(list *[]*mnode, out *[]slot) {
	for i := range *list {
		*out = append(*out, slot{list, i})
		m := (*list)[i]
		if m.cons || m.inner {
			collect(&m.kids, out)
		}
	}
}

// ---------------------------------------------------------------- mutation operators

var byteOps = []string{"bitflip", "byteset", "insert", "delete", "truncate", "append", "splice", "replace-by-other-genuine"}
var treeOps = []string{"drop", "duplicate", "swap-siblings", "length-form", "value-random", "value-bitflip", "graft-from-other", "retag", "empty", "move-up"}

func byteMutate(ch chooser, op string, b, other []byte) []byte {
	out := append([]byte{}, b...)
	if len(out) == 0 {
		return out
	}
	switch op {
	case "bitflip":
		for i, n := 0, 1+ch.Weighted("flips", 6, 2, 1); i < n; i++ {
			p := ch.Pick("pos", len(out))
			out[p] ^= 1 << uint(ch.Pick("bit", 8))
		}
	case "byteset":
		out[ch.Pick("pos", len(out))] = ch.Bytes(1)[0]
	case "insert":
		p := ch.Pick("pos", len(out)+1)
		ins := ch.Bytes(1 + ch.Pick("n", 4))
		out = append(out[:p], append(ins, out[p:]...)...)
	case "delete":
		p := ch.Pick("pos", len(out))
		n := 1 + ch.Pick("n", 8)
		if p+n > len(out) {
			n = len(out) - p
		}
		out = append(out[:p], out[p+n:]...)
	case "truncate":
		out = out[:ch.Pick("pos", len(out))]
	case "append":
		out = append(out, ch.Bytes(1+ch.Pick("n", 4))...)
	case "splice":
		if other == nil {
			other = b
		}
		i := ch.Pick("cut", len(out)+1)
		j := i
		if ch.Weighted("same-offset", 2, 1) == 1 {
			j = ch.Pick("cut2", len(other)+1)
		}
		if j > len(other) {
			j = len(other)
		}
		out = append(append([]byte{}, out[:i]...), other[j:]...)
	case "replace-by-other-genuine":
		if other != nil {
			out = append([]byte{}, other...)
		}
	}
	return out
}

func treeMutate(ch chooser, op string, tree, otherTree []*mnode) []byte {
	t := cloneTree(tree)
	var slots []slot
	collect(&t, &slots)
	if len(slots) == 0 {
		return encodeTree(t)
	}
	s := slots[ch.Pick("node", len(slots))]
	l := *s.list
	m := l[s.idx]
	switch op {
	case "drop":
		*s.list = append(append([]*mnode{}, l[:s.idx]...), l[s.idx+1:]...)
	case "duplicate":
		nl := append(append([]*mnode{}, l[:s.idx+1]...), m.clone())
		*s.list = append(nl, l[s.idx+1:]...)
	case "swap-siblings":
		if len(l) > 1 {
			j := (s.idx + 1 + ch.Pick("sib", len(l)-1)) % len(l)
			l[s.idx], l[j] = l[j], l[s.idx]
		}
	case "length-form":
		switch ch.Pick("form", 3) {
		case 0:
			m.form = der.Indefinite
		case 1:
			m.form = der.LongNonMinimal(ch.Pick("k", 3))
		default:
			m.form = der.Minimal
		}
	case "value-random":
		// the element keeps its identifier octets; its content becomes opaque octets
		n := len(m.encode())
		if ch.Bool("resize") || n == 0 {
			n = ch.Pick("n", 40)
		}
		m.cons, m.inner, m.kids, m.prefix = false, false, nil, nil
		m.val = ch.Bytes(n)
	case "value-bitflip":
		if !m.cons && !m.inner && len(m.val) > 0 {
			p := ch.Pick("pos", len(m.val))
			m.val[p] ^= 1 << uint(ch.Pick("bit", 8))
		} else if len(m.tag) > 0 {
			m.tag[0] ^= 1 << uint(ch.Pick("bit", 8))
		}
	case "graft-from-other":
		src := otherTree
		if src == nil {
			src = tree
		}
		var os []slot
		oc := cloneTree(src)
		collect(&oc, &os)
		var same []slot
		for _, x := range os {
			if bytes.Equal((*x.list)[x.idx].tag, m.tag) {
				same = append(same, x)
			}
		}
		if len(same) > 0 {
			x := same[ch.Pick("graft", len(same))]
			l[s.idx] = (*x.list)[x.idx]
		}
	case "retag":
		switch ch.Pick("how", 3) {
		case 0:
			m.tag[0] ^= 0x20 // primitive <-> constructed
		case 1:
			m.tag[0] ^= 0x80 // class
		default:
			m.tag[len(m.tag)-1] ^= 1 << uint(ch.Pick("bit", 5))
		}
	case "empty":
		m.kids, m.val, m.inner = nil, nil, false
	case "move-up":
		// splice the children in place of the element (unwrap one level)
		if (m.cons || m.inner) && len(m.kids) > 0 {
			nl := append(append([]*mnode{}, l[:s.idx]...), m.kids...)
			*s.list = append(nl, l[s.idx+1:]...)
		}
	}
	return encodeTree(t)
}

// ---------------------------------------------------------------- evaluating a mutation

// Mut identifies one mutated input; it is the JSON repro of a mutation case.
type Mut struct {
	World  string `json:"world"`
	Target string `json:"target"` // sod, cardsec, dgN, storeN, ml, root
	Op     string `json:"op"`
	Bytes  string `json:"bytes"` // hex of the mutated object
}

// evalMutation runs the library on world w with object `target` replaced by mut
// and applies the provenance oracle.  It returns (class, nontrivial, violation).
func evalMutation(w *world, target string, mut []byte) (string, bool, string) {
	orig := w.objects()[target]
	if bytes.Equal(orig, mut) {
		return "noop", false, ""
	}
	if target == "ml" || target == "root" {
		ml, root := w.ml.DER, w.ml.RootDER
		if target == "ml" {
			ml = mut
		} else {
			root = mut
		}
		got, err := createPool(ml, root)
		if err != nil {
			return "rejected", true, ""
		}
		if !sameSet(got, w.ml.Certs) {
			return "accepted", true, fmt.Sprintf("CreateCertPoolFromSignedData accepts a mutated %s and yields %d certificates that are not the signed list", target, len(got))
		}
		if target == "root" {
			if why, readable := anchorSemantics(root, &w.t, ""); readable && why != "" {
				return "accepted", true, "CreateCertPoolFromSignedData verifies a master list under a mutated root that is not acceptable as CA: " + why
			} else if !readable {
				return "accepted-anchor-unreadable-by-harness", true, ""
			}
		}
		return "accepted-benign", true, ""
	}
	in := w.input()
	sodSet := w.sodSet
	switch {
	case target == "sod":
		in.SOD = mut
	case target == "cardsec":
		in.CardSec = mut
	case len(target) > 2 && target[:2] == "dg":
		var n int
		fmt.Sscanf(target, "dg%d", &n)
		in.DGs[n] = mut
	case len(target) > 5 && target[:5] == "store":
		var i int
		fmt.Sscanf(target, "store%d", &i)
		in.Store[i] = mut
	default:
		return "bad-target", false, ""
	}
	o := runPA(in)
	if !o.Parsed {
		if o.Panic != "" {
			return "panic-in-constructor", false, ""
		}
		return "unparseable", false, ""
	}
	// the supplied trust store = the certificates the pool holds after loading
	// the supplied bytes (one store entry may carry several certificates)
	var storeCerts [][]byte
	for _, c := range o.Pool.All() {
		storeCerts = append(storeCerts, []byte(c.Raw))
	}
	check := func(accepted bool) string {
		var sigT *time.Time
		// SOD
		var chain [][]byte
		if accepted {
			if o.Res.Sod == nil {
				return "success without a SOD result"
			}
			chain = o.Res.Sod.CertChain
		} else {
			ok, c, _ := runVerify(o)
			if !ok {
				return ""
			}
			chain = c
		}
		dgs := heldDGs(o.Doc)
		if !accepted {
			dgs = nil // SignedData.Verify alone says nothing about data groups
		}
		if m := provenance("SOD", o.Doc.Mf.Lds1.Sod.SD, chain, dgs, sodSet, storeCerts); m != "" {
			return m
		}
		if !w.spec.NoTime {
			sigT = &w.t
		}
		for i := 1; i < len(chain); i += 2 {
			country := w.country
			if !accepted {
				country = "" // SignedData.Verify has no notion of the document's country
			}
			if why, readable := anchorSemantics(chain[i], sigT, country); readable && why != "" {
				return "the chain ends in a certificate that must not serve as anchor: " + why
			}
		}
		if accepted && in.CardSec != nil {
			if o.Res.CardSec == nil {
				return "success without a CardSecurity result although the file is present"
			}
			if m := provenance("CardSecurity", o.Doc.Mf.CardSecurity.SD, o.Res.CardSec.CertChain, nil, w.cardSet, storeCerts); m != "" {
				return m
			}
			for i := 1; i < len(o.Res.CardSec.CertChain); i += 2 {
				if why, readable := anchorSemantics(o.Res.CardSec.CertChain[i], sigT, w.country); readable && why != "" {
					return "CardSecurity chain ends in a certificate that must not serve as anchor: " + why
				}
			}
		}
		return ""
	}
	if o.Panic != "" {
		return "panic-in-passiveauth", true, ""
	}
	if o.Accepted {
		if m := check(true); m != "" {
			return "accepted", true, "PassiveAuth reports success on a mutated " + target + ": " + m
		}
		return "accepted-benign", true, ""
	}
	if m := check(false); m != "" {
		return "rejected", true, "SignedData.Verify succeeds on a mutated " + target + " (PassiveAuth refuses): " + m
	}
	return "rejected", true, ""
}

func targetKind(t string) string {
	switch {
	case len(t) > 2 && t[:2] == "dg":
		return "dg"
	case len(t) > 5 && t[:5] == "store":
		return "store"
	}
	return t
}

func mutateCase(t failer, check string, ch chooser) {
	specs := worldSpecs()
	spec := specs[ch.Pick("world", len(specs))]
	w, err := getWorld(spec)
	if err != nil {
		evid.Infra(t, "world: %v", err)
		return
	}
	// target
	var targets []string
	switch ch.Weighted("target-kind", 45, 10, 15, 12, 12, 6) {
	case 0:
		targets = []string{"sod"}
	case 1:
		if w.card != nil {
			targets = []string{"cardsec"}
		} else {
			targets = []string{"sod"}
		}
	case 2:
		for n := range w.dgs {
			targets = append(targets, fmt.Sprintf("dg%d", n))
		}
		sortStrings(targets)
	case 3:
		for i := range w.store {
			targets = append(targets, fmt.Sprintf("store%d", i))
		}
	case 4:
		targets = []string{"ml"}
	default:
		targets = []string{"root"}
	}
	target := targets[ch.Pick("target", len(targets))]
	orig := w.objects()[target]
	if orig == nil && target == "dg2" {
		orig = w.dgs[2]
	}
	var other []byte
	var otherTree []*mnode
	switch target {
	case "sod":
		other, otherTree = w.sod2.DER, w.trees["sod2"]
	case "ml":
		other, otherTree = w.sod.DER, w.trees["sod"]
	case "cardsec":
		other, otherTree = w.sod.ContentInfo, w.trees["sod"]
	default:
		if targetKind(target) == "store" {
			other, otherTree = w.pki.DS.DER, nil
		}
	}
	var op string
	var mut []byte
	tree := w.trees[target]
	if tree != nil && ch.Weighted("structured", 1, 1) == 1 {
		op = treeOps[ch.Pick("op", len(treeOps))]
		mut = treeMutate(ch, op, tree, otherTree)
	} else {
		op = byteOps[ch.Pick("op", len(byteOps))]
		mut = byteMutate(ch, op, orig, other)
	}
	kind := targetKind(target)
	if (kind == "sod" || kind == "dg") && evid.Open("C12", c12F7a) && lyingLength(mut) {
		evid.Excluded("C12/" + c12F7a) // allocation before the length check: C12's open finding, not a verdict
		return
	}
	class, nontrivial, violation := evalMutation(w, target, mut)
	evid.CaseFn("mutation:"+kind+":"+class, nontrivial, hex.EncodeToString(issuer.Digest("sha256", mut))+spec.Name+target, func() any {
		return map[string]any{"world": spec.Name, "target": target, "operator": op, "original_len": len(orig), "mutated": evid.Hex(mut), "verdict_class": class}
	})
	evid.Count("mutation-op:"+op, 1)
	evid.Count("mutation-world:"+spec.Name, 1)
	if violation != "" {
		evid.Fail(t, check, Mut{World: spec.Name, Target: target, Op: op, Bytes: hex.EncodeToString(mut)}, "%s [world %s, %s]", violation, spec.Name, op)
	}
}

func sortStrings(s []string) {
	for i := 1; i < len(s); i++ {
		for j := i; j > 0 && s[j] < s[j-1]; j-- {
			s[j], s[j-1] = s[j-1], s[j]
		}
	}
}

// TestMutations: byte-level and structure-aware mutations of genuine objects
// (quick 5 000, thorough 300 000).
func TestMutations(t *testing.T) {
	evid.RapidCheck(t, 5000, 300000, func(rt *rapid.T) {
		mutateCase(rt, "mutations", rapidChooser{rapidSrc{rt}})
	})
}

// TestWorldsGenuine: every genuine world verifies (a rejected genuine world
// would make every rejection of a mutant meaningless).  Also pins that the
// other genuine SOD is NOT accepted for this document (hash list of another
// holder).
func TestWorldsGenuine(t *testing.T) {
	for i, s := range worldSpecs() {
		if !evid.MineIdx(i) {
			continue
		}
		w, err := getWorld(s)
		if err != nil {
			evid.Infra(t, "%v", err)
			continue
		}
		class, _, v := evalMutation(w, "sod", w.sod2.DER)
		evid.Case("mutation:sod:"+class, true, "other-genuine-sod/"+s.Name, nil)
		if v != "" || class != "rejected" {
			evid.Fail(t, "worlds", Mut{World: s.Name, Target: "sod", Op: "replace-by-other-genuine", Bytes: hex.EncodeToString(w.sod2.DER)},
				"the genuine SOD of another holder is accepted for this document (%s) %s", class, v)
		}
	}
}

// ---------------------------------------------------------------- replay

// TestReplayJSON re-executes a saved JSON repro (./verif replay C01 <file>).
func TestReplayJSON(t *testing.T) {
	path := os.Getenv("VERIF_REPLAY_JSON")
	if path == "" {
		return
	}
	b, err := os.ReadFile(path)
	if err != nil {
		t.Fatalf("read: %v", err)
	}
	var doc struct {
		Check string          `json:"check"`
		Case  json.RawMessage `json:"case"`
	}
	if err := json.Unmarshal(b, &doc); err != nil {
		t.Fatalf("parse: %v", err)
	}
	var m Mut
	if json.Unmarshal(doc.Case, &m) == nil && m.World != "" {
		for _, s := range thoroughWorlds() {
			if s.Name == m.World {
				w, err := getWorld(s)
				if err != nil {
					t.Fatalf("world: %v", err)
				}
				mut, _ := hex.DecodeString(m.Bytes)
				if _, _, v := evalMutation(w, m.Target, mut); v != "" {
					t.Fatalf("VIOLATION reproduced: %s", v)
				}
				return
			}
		}
		t.Fatalf("unknown world %q", m.World)
	}
	var f struct {
		Attack string `json:"attack"`
		Forged struct {
			Sod     string            `json:"sod"`
			Store   []string          `json:"store"`
			Dgs     map[string]string `json:"dgs"`
			CardSec string            `json:"cardsec"`
		} `json:"forged"`
		ML   string `json:"ml"`
		Root string `json:"root"`
	}
	if err := json.Unmarshal(doc.Case, &f); err != nil {
		t.Fatalf("parse case: %v", err)
	}
	if f.ML != "" {
		ml, _ := hex.DecodeString(f.ML)
		root, _ := hex.DecodeString(f.Root)
		if _, err := createPool(ml, root); err == nil {
			t.Fatalf("VIOLATION reproduced: CreateCertPoolFromSignedData accepts forgery %q", f.Attack)
		}
		return
	}
	in := input{DGs: map[int][]byte{}}
	in.SOD, _ = hex.DecodeString(f.Forged.Sod)
	for _, s := range f.Forged.Store {
		x, _ := hex.DecodeString(s)
		in.Store = append(in.Store, x)
	}
	for k, v := range f.Forged.Dgs {
		var n int
		fmt.Sscan(k, &n)
		in.DGs[n], _ = hex.DecodeString(v)
	}
	if f.Forged.CardSec != "" {
		in.CardSec, _ = hex.DecodeString(f.Forged.CardSec)
	}
	if o := runPA(in); o.Accepted {
		t.Fatalf("VIOLATION reproduced: PassiveAuth accepts forgery %q", f.Attack)
	} else if o.Parsed && o.Panic == "" {
		if ok, _, _ := runVerify(o); ok && attackIndex(f.Attack) >= 0 && attacks[attackIndex(f.Attack)].sdLevel {
			t.Fatalf("VIOLATION reproduced: SignedData.Verify accepts the SOD of forgery %q", f.Attack)
		}
	}
}
