// Package readcheck runs gmrtd's reader against a personalised chip and holds
// the oracles shared by the end-to-end checks (C02, C08, C11, C14, C20).
package readcheck

import (
	"bytes"
	"fmt"
	"sort"

	"github.com/gmrtd/gmrtd/cms"
	"github.com/gmrtd/gmrtd/document"
	"github.com/gmrtd/gmrtd/iso7816"
	"github.com/gmrtd/gmrtd/password"
	"github.com/gmrtd/gmrtd/reader"

	"verifharness/chipsim"
	"verifharness/detrand"
	"verifharness/persona"
)

// Link is what the reader talks to (the chip, or a wrapper injecting faults).
type Link interface {
	Transceive(cla int, ins int, p1 int, p2 int, data []byte, le int, encoded []byte) []byte
}

type ReadOpts struct {
	MaxLe       int // 0 = library default (256)
	SkipImages  bool
	SkipPace    bool
	PwKind      int // 0 MRZ key fields, 1 full MRZ, 2 CAN, 3 none (chip without access control)
	WrongPw     bool
	LibSeed     []byte
	AAChallenge []byte
}

type Result struct {
	DocEx *document.DocumentEx
	Log   *iso7816.ApduLog
	Err   error
	Pool  *cms.GenericCertPool
}

// Password builds the password object for the persona.
func Password(p *persona.Persona, kind int) (*password.Password, error) {
	switch kind {
	case 1:
		return password.NewPasswordMrz(p.MRZ)
	case 2:
		return password.NewPasswordCan(p.CAN), nil
	case 3:
		return password.NewPasswordNil(), nil // a chip without access control
	}
	return password.NewPasswordMrzi(p.DocNo, p.DOB, p.Expiry)
}

// Pool builds the trust store from the persona's anchors.
func Pool(p *persona.Persona) (*cms.GenericCertPool, error) {
	pool := &cms.GenericCertPool{}
	for _, a := range p.Anchors {
		if err := pool.Add(a); err != nil {
			return nil, fmt.Errorf("trust anchor rejected by GenericCertPool.Add: %w", err)
		}
	}
	return pool, nil
}

// Read performs ReadDocument over link.
func Read(p *persona.Persona, link Link, o ReadOpts) (*Result, error) {
	pool, err := Pool(p)
	if err != nil {
		return nil, err
	}
	pass, err := Password(p, o.PwKind)
	if err != nil {
		return nil, fmt.Errorf("library rejects the persona's password data: %w", err)
	}
	restore := detrand.Install(append([]byte("lib"), o.LibSeed...))
	defer restore()
	nfc := iso7816.NewNfcSession(link)
	if o.MaxLe > 0 {
		nfc.SetMaxLe(o.MaxLe)
	}
	rd := reader.NewReader(nil, nfc, pool)
	if o.SkipImages {
		rd.SkipImages()
	}
	if o.SkipPace {
		rd.SkipPace()
	}
	if o.AAChallenge != nil {
		if _, err := rd.WithAAChallenge(o.AAChallenge); err != nil {
			return nil, err
		}
	}
	r := &Result{Pool: pool}
	r.DocEx, r.Log, r.Err = rd.ReadDocument(pass, []byte{0x3B, 0x80}, []byte{0x05, 0x78})
	return r, nil
}

// DocFiles lists the raw bytes of every file held in a document, by name.
func DocFiles(doc *document.Document) map[string][]byte {
	out := map[string][]byte{}
	if doc == nil {
		return out
	}
	add := func(name string, f document.RawDataProvider, isNil bool) {
		if !isNil {
			out[name] = f.GetRawData()
		}
	}
	mf, l := doc.Mf, doc.Mf.Lds1
	add("CardAccess", mf.CardAccess, mf.CardAccess == nil)
	add("CardSecurity", mf.CardSecurity, mf.CardSecurity == nil)
	add("DIR", mf.Dir, mf.Dir == nil)
	add("COM", l.Com, l.Com == nil)
	add("SOD", l.Sod, l.Sod == nil)
	add("DG1", l.Dg1, l.Dg1 == nil)
	add("DG2", l.Dg2, l.Dg2 == nil)
	add("DG7", l.Dg7, l.Dg7 == nil)
	add("DG11", l.Dg11, l.Dg11 == nil)
	add("DG12", l.Dg12, l.Dg12 == nil)
	add("DG13", l.Dg13, l.Dg13 == nil)
	add("DG14", l.Dg14, l.Dg14 == nil)
	add("DG15", l.Dg15, l.Dg15 == nil)
	add("DG16", l.Dg16, l.Dg16 == nil)
	return out
}

// FilesEqualChip checks that every file present in the document is
// byte-identical to the chip's file of that name.
func FilesEqualChip(p *persona.Persona, doc *document.Document) string {
	got := DocFiles(doc)
	names := make([]string, 0, len(got))
	for n := range got {
		names = append(names, n)
	}
	sort.Strings(names)
	for _, n := range names {
		want, ok := p.Files[n]
		if !ok {
			if n == "DIR" && len(got[n]) == 0 {
				continue
			}
			return fmt.Sprintf("document holds a file %s (%d bytes) the chip does not store", n, len(got[n]))
		}
		if !bytes.Equal(got[n], want) {
			return fmt.Sprintf("file %s differs from the chip's file (got %d bytes, chip %d bytes, first difference at %d)", n, len(got[n]), len(want), firstDiff(got[n], want))
		}
	}
	return ""
}

func firstDiff(a, b []byte) int {
	for i := 0; i < len(a) && i < len(b); i++ {
		if a[i] != b[i] {
			return i
		}
	}
	return min(len(a), len(b))
}

var supportedDG = map[int]bool{1: true, 2: true, 7: true, 11: true, 12: true, 13: true, 14: true, 15: true, 16: true}

// Complete checks that every supported data group listed in the SOD and stored
// on the chip has been read (images may be skipped on request).
func Complete(p *persona.Persona, doc *document.Document, skipImages bool) string {
	got := DocFiles(doc)
	for _, dg := range p.SODListed {
		if !supportedDG[dg] {
			continue
		}
		name := fmt.Sprintf("DG%d", dg)
		if _, stored := p.Files[name]; !stored {
			continue
		}
		if skipImages && (dg == 2 || dg == 7) {
			if _, ok := got[name]; ok {
				return name + " was read although image reading was switched off"
			}
			continue
		}
		if _, ok := got[name]; !ok {
			return name + " is listed in the security object and stored on the chip but was not read"
		}
	}
	for _, n := range []string{"COM", "SOD"} {
		if _, ok := got[n]; !ok {
			return "EF." + n + " was not read"
		}
	}
	return ""
}

func succeeded(ok bool, present bool) bool { return present && ok }

// StepOutcomes checks the reported outcome of every step against the persona's
// expectations (genuine chips only).
func StepOutcomes(p *persona.Persona, s *document.Session) string {
	pace := s.PaceResult != nil && s.PaceResult.Success
	bac := s.BacResult != nil && s.BacResult.Success
	cam := s.PaceCamResult != nil && s.PaceCamResult.Success
	aa := s.ActiveAuthResult != nil && s.ActiveAuthResult.Success
	ca := s.ChipAuthResult != nil && s.ChipAuthResult.Success
	pa := s.PassiveAuthResult != nil && s.PassiveAuthResult.Success
	if pace != p.ExpectPACE {
		return fmt.Sprintf("PACE reported %v, expected %v (err: %v)", pace, p.ExpectPACE, s.PaceErr)
	}
	if bac != p.ExpectBAC {
		return fmt.Sprintf("BAC reported %v, expected %v (err: %v)", bac, p.ExpectBAC, s.BacErr)
	}
	if cam != p.ExpectCAM {
		return fmt.Sprintf("PACE-CAM reported %v, expected %v (err: %v)", cam, p.ExpectCAM, s.PaceErr)
	}
	if aa != p.ExpectAA {
		return fmt.Sprintf("Active Authentication reported %v, expected %v (err: %v)", aa, p.ExpectAA, s.ActiveAuthErr)
	}
	if ca != p.ExpectCA {
		return fmt.Sprintf("Chip Authentication reported %v, expected %v (err: %v)", ca, p.ExpectCA, s.ChipAuthErr)
	}
	if pa != p.ExpectPA {
		return fmt.Sprintf("Passive Authentication reported %v, expected %v (err: %v)", pa, p.ExpectPA, s.PassiveAuthErr)
	}
	return ""
}

// AgreesWithChip checks that a step reported successful was really completed
// by the chip (used with hostile chips / faults).
func AgreesWithChip(chip *chipsim.Chip, s *document.Session) string {
	if s.BacResult != nil && s.BacResult.Success && !chip.Done.BAC {
		return "BAC reported successful but the chip did not complete BAC"
	}
	if s.PaceResult != nil && s.PaceResult.Success && !chip.Done.PACE {
		return "PACE reported successful but the chip did not complete PACE"
	}
	if s.PaceCamResult != nil && s.PaceCamResult.Success && !chip.Done.PACECAM {
		return "PACE-CAM reported successful but the chip did not complete it"
	}
	if s.ChipAuthResult != nil && s.ChipAuthResult.Success && !chip.Done.CA {
		return "Chip Authentication reported successful but the chip did not complete it"
	}
	if s.ActiveAuthResult != nil && s.ActiveAuthResult.Success && !chip.Done.AA {
		return "Active Authentication reported successful but the chip did not sign"
	}
	return ""
}

// NoPlainLDS checks the chip-side transcript: no LDS file command travelled
// unprotected (the chip would refuse it, so it also means no refusal occurred).
func NoPlainLDS(chip *chipsim.Chip) string {
	if chip.PlainLDSReads > 0 {
		return fmt.Sprintf("%d LDS read commands were served without secure messaging", chip.PlainLDSReads)
	}
	smSeen := false
	for i, ex := range chip.Transcript {
		if ex.Protected {
			smSeen = true
			continue
		}
		if smSeen && ex.Plain != nil && (ex.INS == 0xB0 || ex.INS == 0xA4 || ex.INS == 0x88) {
			return fmt.Sprintf("exchange %d (INS %02X) left unprotected after a secure channel existed", i, ex.INS)
		}
	}
	return ""
}
