package c02

// Part (b): adversarial chips in an end-to-end read.  Each hostile persona has
// a genuine twin (same options without the hostile knob) which must yield a
// positive verdict - that makes the hostile case non-trivial.  The verdict is
// taken from the live read and from offline verification of the serialised
// result, and both are checked against the scenario's oracle.

import (
	"encoding/hex"
	"fmt"
	"testing"

	"github.com/gmrtd/gmrtd/document"
	"github.com/gmrtd/gmrtd/verifier"
	"pgregory.net/rapid"

	"verifharness/evid"
	"verifharness/persona"
	"verifharness/readcheck"
	"verifharness/ref/mac"
)

type scenario struct {
	name  string
	apply func(o *persona.Opts)
	// need: what the genuine twin must have for the scenario to make sense
	needAA, needCA, needCAM, needPACE bool
	// check returns "" if the verdict respects the property
	check func(o persona.Opts, sum *document.DocumentSummary) string
}

const (
	none = document.CHIP_AUTH_STATUS_NONE
	vAA  = document.CHIP_AUTH_STATUS_AA
	vCA  = document.CHIP_AUTH_STATUS_CA
	vCAM = document.CHIP_AUTH_STATUS_PACE_CAM
)

var scenarios = []scenario{
	{name: "clone-without-keys", apply: func(o *persona.Opts) { o.CloneWithoutKeys = true },
		check: func(o persona.Opts, s *document.DocumentSummary) string {
			if s.ChipAuthenticity != none {
				return fmt.Sprintf("a clone without the private keys is reported chip-authentic (%s)", s.ChipAuthenticity)
			}
			return ""
		}},
	{name: "substituted-aa-key", needAA: true, apply: func(o *persona.Opts) { o.SubstituteAAKey = true },
		check: func(o persona.Opts, s *document.DocumentSummary) string {
			if s.DataTrusted {
				return "data trusted although DG15 was replaced by the clone's own key"
			}
			if s.ChipAuthenticity != none {
				return fmt.Sprintf("chip-authentic verdict (%s) for a clone with a substituted AA key pair", s.ChipAuthenticity)
			}
			return ""
		}},
	{name: "substituted-ca-key", needCA: true, apply: func(o *persona.Opts) { o.SubstituteCAKey = true },
		check: func(o persona.Opts, s *document.DocumentSummary) string {
			if s.DataTrusted {
				return "data trusted although DG14 was replaced by the clone's own key"
			}
			if s.ChipAuthenticity != none {
				return fmt.Sprintf("chip-authentic verdict (%s) for a clone with a substituted CA key pair", s.ChipAuthenticity)
			}
			return ""
		}},
	{name: "withheld-dg15", needAA: true, apply: func(o *persona.Opts) { o.WithholdDG15 = true },
		check: func(o persona.Opts, s *document.DocumentSummary) string {
			if s.DataTrusted {
				return "data trusted although DG15 (listed in the security object) was withheld"
			}
			if s.ChipAuthenticity == vAA {
				return "AA named although DG15 was withheld"
			}
			return ""
		}},
	{name: "withheld-dg14", needCA: true, apply: func(o *persona.Opts) { o.WithholdDG14 = true },
		check: func(o persona.Opts, s *document.DocumentSummary) string {
			if s.DataTrusted {
				return "data trusted although DG14 (listed in the security object) was withheld"
			}
			if s.ChipAuthenticity == vCA {
				return "CA named although DG14 was withheld"
			}
			return ""
		}},
	{name: "downgraded-cardaccess", needPACE: true, apply: func(o *persona.Opts) { o.DowngradeCA = true },
		check: func(o persona.Opts, s *document.DocumentSummary) string {
			if s.DataTrusted {
				return "data trusted although EF.CardAccess holds a security info that DG14 does not contain"
			}
			return ""
		}},
	{name: "untrusted-issuer", apply: func(o *persona.Opts) { o.Trusted = false },
		check: func(o persona.Opts, s *document.DocumentSummary) string {
			if s.DataTrusted {
				return "data trusted although the issuing CSCA is not in the trust store"
			}
			if s.ChipAuthenticity != none {
				return fmt.Sprintf("chip-authentic verdict (%s) although passive authentication cannot succeed", s.ChipAuthenticity)
			}
			return ""
		}},
}

func drawGenuine(rt *rapid.T, sc scenario) persona.Opts {
	var o persona.Opts
	o.Seed = rapid.SliceOfN(rapid.Byte(), 8, 8).Draw(rt, "seed")
	o.Country = rapid.SampledFrom([]string{"DE", "FR", "NL", "GB", "US"}).Draw(rt, "country")
	o.Layout = rapid.SampledFrom([]string{"TD3", "TD1", "TD2"}).Draw(rt, "layout")
	o.Access = rapid.SampledFrom([]string{"BAC", "PACE+BAC", "PACE", "PACE-CAM"}).Draw(rt, "access")
	if sc.needPACE && o.Access == "BAC" {
		o.Access = "PACE"
	}
	o.PaceID = rapid.SampledFrom([]int{12, 10, 13}).Draw(rt, "paceId")
	o.PaceCipher = rapid.SampledFrom([]mac.Cipher{"3DES", "AES-128", "AES-256"}).Draw(rt, "paceCipher")
	if rapid.Bool().Draw(rt, "dg11") {
		o.DGs = append(o.DGs, 11)
	}
	if rapid.Bool().Draw(rt, "dg2") {
		o.DGs = append(o.DGs, 2)
		o.MaxImage = 500
	}
	o.AA = rapid.SampledFrom([]string{"", "RSA", "ECDSA"}).Draw(rt, "aa")
	if sc.needAA && o.AA == "" {
		o.AA = "RSA"
	}
	o.AARSABits = rapid.SampledFrom([]int{1024, 1280}).Draw(rt, "aaBits")
	o.AACurve = rapid.SampledFrom([]string{"P-256", "P-224", "brainpoolP256r1"}).Draw(rt, "aaCurve")
	o.CA = rapid.Bool().Draw(rt, "ca") || sc.needCA
	o.CACurve = rapid.SampledFrom([]string{"P-256", "P-224", "brainpoolP256r1"}).Draw(rt, "caCurve")
	o.CACipher = rapid.SampledFrom([]mac.Cipher{"3DES", "AES-128", "AES-256"}).Draw(rt, "caCipher")
	o.CAKeyID = rapid.Bool().Draw(rt, "caKeyId")
	o.Trusted = true
	o.RSAIssuer = rapid.IntRange(0, 3).Draw(rt, "rsaIssuer") == 0
	o.Extended = true
	if sc.name == "clone-without-keys" && o.AA == "" && !o.CA && o.Access != "PACE-CAM" {
		o.CA = true
	}
	if sc.name == "withheld-dg14" || sc.name == "substituted-ca-key" {
		// keep the scenario about the CA key: AA would need DG14 too for ECDSA
		if o.AA == "ECDSA" {
			o.AA = "RSA"
		}
	}
	return o
}

type verdicts struct {
	live, offline *document.DocumentSummary
	liveErr       error
	offlineErr    error
	chipMsg       string
}

func readBoth(p *persona.Persona, libSeed []byte) (*verdicts, error) {
	chip := p.NewChip()
	r, err := readcheck.Read(p, chip, readcheck.ReadOpts{LibSeed: libSeed, MaxLe: 256})
	if err != nil {
		return nil, err
	}
	v := &verdicts{liveErr: r.Err}
	if r.DocEx != nil {
		v.live = r.DocEx.Summary()
		v.chipMsg = readcheck.AgreesWithChip(chip, &r.DocEx.Session)
		if r.Err == nil {
			blob, err := r.DocEx.ToCbor()
			if err != nil {
				v.offlineErr = fmt.Errorf("ToCbor: %w", err)
				return v, nil
			}
			pool, err := readcheck.Pool(p)
			if err != nil {
				return nil, err
			}
			ex, err := verifier.NewVerifier(pool).Verify(blob)
			if err != nil {
				v.offlineErr = err
			} else {
				v.offline = ex.Summary()
			}
		}
	}
	return v, nil
}

func TestHostileChips(t *testing.T) {
	evid.RapidCheck(t, 1200, 40000, func(rt *rapid.T) {
		sc := scenarios[rapid.IntRange(0, len(scenarios)-1).Draw(rt, "scenario")]
		o := drawGenuine(rt, sc)
		libSeed := rapid.SliceOfN(rapid.Byte(), 8, 8).Draw(rt, "libSeed")
		rep := map[string]any{"scenario": sc.name, "seed": hex.EncodeToString(o.Seed), "access": o.Access, "paceId": o.PaceID, "paceCipher": string(o.PaceCipher),
			"aa": o.AA, "aaBits": o.AARSABits, "aaCurve": o.AACurve, "ca": o.CA, "caCurve": o.CACurve, "caCipher": string(o.CACipher), "caKeyId": o.CAKeyID,
			"dgs": o.DGs, "rsaIssuer": o.RSAIssuer, "country": o.Country, "layout": o.Layout, "libSeed": hex.EncodeToString(libSeed)}
		key := fmt.Sprintf("%s/%s/%d/%s/%s/%v/%s/%x", sc.name, o.Access, o.PaceID, o.AA, o.AACurve, o.CA, o.CACurve, o.Seed)

		// the genuine twin must be trusted and chip-authentic (when a mechanism exists)
		gp, err := persona.Build(o)
		if err != nil {
			evid.Infra(rt, "persona.Build (twin): %v", err)
		}
		gv, err := readBoth(gp, libSeed)
		if err != nil {
			evid.Fail(rt, "hostile-twin-setup", rep, "%v", err)
		}
		if gv.liveErr != nil || gv.live == nil || !gv.live.DataTrusted {
			evid.Fail(rt, "hostile-twin", rep, "genuine twin not trusted: err=%v summary=%+v", gv.liveErr, gv.live)
		}
		hasMech := o.AA != "" || o.CA || o.Access == "PACE-CAM"
		if hasMech && gv.live.ChipAuthenticity == none {
			evid.Fail(rt, "hostile-twin", rep, "genuine twin with a chip-authentication mechanism has no chip-authentic verdict")
		}
		if gv.offline == nil || gv.offline.DataTrusted != gv.live.DataTrusted || gv.offline.ChipAuthenticity != gv.live.ChipAuthenticity {
			evid.Fail(rt, "hostile-twin-offline", rep, "offline verdict of the genuine twin differs from the live one: live=%+v offline=%+v err=%v", brief(gv.live), brief(gv.offline), gv.offlineErr)
		}

		// the hostile chip
		ho := o
		sc.apply(&ho)
		if ho.WithholdDG14 || ho.WithholdDG15 {
			// the chip may refuse the withheld file with "file not found" or with some other status
			// (the read then ends with an error and a partial result, whose summary is judged too)
			ho.WithholdSW = rapid.SampledFrom([]uint16{0, 0, 0x6A82, 0x6F00, 0x6982, 0x6A80, 0x6283, 0x6400}).Draw(rt, "withholdSW")
			rep["withholdSW"] = fmt.Sprintf("%04X", ho.WithholdSW)
			evid.Count(fmt.Sprintf("withheld-status-%04X", ho.WithholdSW), 1)
		}
		if ho.DowngradeCA {
			ho.DowngradePos = rapid.IntRange(0, 2).Draw(rt, "downgradePos")
			ho.DowngradeKind = rapid.IntRange(0, 2).Draw(rt, "downgradeKind")
			rep["downgradePos"], rep["downgradeKind"] = ho.DowngradePos, ho.DowngradeKind
			evid.Count(fmt.Sprintf("downgrade-pos%d-kind%d", ho.DowngradePos, ho.DowngradeKind), 1)
		}
		hp, err := persona.Build(ho)
		if err != nil {
			evid.Infra(rt, "persona.Build (hostile): %v", err)
		}
		hv, err := readBoth(hp, libSeed)
		if err != nil {
			evid.Fail(rt, "hostile-setup", rep, "%v", err)
		}
		evid.Case("hostile-"+sc.name, true, key, rep)
		if hv.chipMsg != "" {
			evid.Fail(rt, "hostile-"+sc.name, rep, "%s", hv.chipMsg)
		}
		if hv.live != nil {
			if msg := sc.check(ho, hv.live); msg != "" {
				evid.Fail(rt, "hostile-"+sc.name, rep, "live read: %s (summary %+v)", msg, brief(hv.live))
			}
		}
		if hv.offline != nil {
			evid.Count("offline-verdicts", 1)
			if msg := sc.check(ho, hv.offline); msg != "" {
				evid.Fail(rt, "hostile-"+sc.name+"-offline", rep, "offline verification: %s (summary %+v)", msg, brief(hv.offline))
			}
		}
	})
}

func brief(s *document.DocumentSummary) string {
	if s == nil {
		return "<nil>"
	}
	return fmt.Sprintf("{DataTrusted:%v ChipAuthenticity:%s}", s.DataTrusted, s.ChipAuthenticity)
}
