// C02 part (c): the structural completeness check itself, over generated
// documents.  Part (a) enumerates what the summary does with a given
// DocumentVerifyErr and part (b) reads whole hostile chips; this part feeds
// Document.Verify() — the function that produces DocumentVerifyErr in a live
// read and in offline verification alike — with generated file sets:
//
//	DG14 = any SET of 1..8 generated SecurityInfos (every kind incl. unknown OIDs, duplicates allowed),
//	EF.CardAccess = any sequence of 1..6 entries, each either a byte-exact DG14 entry or a foreign one
//	  (another generated info, or a DG14 entry with one octet changed), the foreign ones at any position,
//	SOD = hash list over any subset of {1,2,11,12,13,14,15}, DG14 / DG15 stored or withheld.
//
// Oracle (only what the property states): whenever DG14 or DG15 is listed by
// the security object but absent, or EF.CardAccess holds an entry that is not
// byte-identical to an entry of DG14 (both present), Document.Verify() must
// return an error and a DocumentEx carrying that result with a successful
// passive authentication must not be summarised as DataTrusted.
package c02

import (
	"bytes"
	"encoding/hex"
	"fmt"
	"testing"

	"github.com/gmrtd/gmrtd/document"
	"pgregory.net/rapid"

	"verifharness/evid"
	"verifharness/lds"
	"verifharness/ldsgen"
)

type rapidSource struct{ t *rapid.T }

func (r rapidSource) Intn(n int) int {
	if n <= 1 {
		return 0
	}
	return rapid.IntRange(0, n-1).Draw(r.t, "n")
}
func (r rapidSource) Bool() bool { return rapid.Bool().Draw(r.t, "b") }
func (r rapidSource) Bytes(n int) []byte {
	if n == 0 {
		return []byte{}
	}
	return rapid.SliceOfN(rapid.Byte(), n, n).Draw(r.t, "bytes")
}

func TestCompletenessCheck(t *testing.T) {
	evid.RapidCheck(t, 6000, 300000, func(rt *rapid.T) {
		src := rapidSource{rt}
		o := ldsgen.Opts{SmallKeys: true}
		dg14v, _ := ldsgen.SecurityInfosSet(src, o)
		otherv, _ := ldsgen.SecurityInfosSet(src, o)
		var dg14Entries [][]byte
		for _, i := range dg14v.Infos {
			dg14Entries = append(dg14Entries, i.Raw)
		}
		inDG14 := func(e []byte) bool {
			for _, d := range dg14Entries {
				if bytes.Equal(d, e) {
					return true
				}
			}
			return false
		}
		// EF.CardAccess
		n := rapid.IntRange(1, 6).Draw(rt, "cardaccess-entries")
		var ca [][]byte
		var shape []byte
		foreign := 0
		for i := 0; i < n; i++ {
			var e []byte
			switch rapid.IntRange(0, 5).Draw(rt, "entry-kind") {
			case 0: // another generated info
				e = otherv.Infos[rapid.IntRange(0, len(otherv.Infos)-1).Draw(rt, "other")].Raw
			case 1: // a DG14 entry with one octet changed (still a well-formed SEQUENCE where possible: the last octet)
				g := dg14Entries[rapid.IntRange(0, len(dg14Entries)-1).Draw(rt, "which")]
				e = append([]byte{}, g...)
				e[len(e)-1] ^= byte(rapid.IntRange(1, 255).Draw(rt, "xor"))
			default: // a byte-exact DG14 entry
				e = dg14Entries[rapid.IntRange(0, len(dg14Entries)-1).Draw(rt, "which")]
			}
			if inDG14(e) {
				shape = append(shape, 'g')
			} else {
				shape = append(shape, 'F')
				foreign++
			}
			ca = append(ca, e)
		}
		caBytes := lds.CardAccess(ca...)
		// files
		files := map[int][]byte{1: ldsgen.DG1(src).Bytes}
		listed := map[int]bool{1: true}
		dg14Bytes := ldsgen.DG14For(dg14v, "").Bytes
		dg15Bytes := ldsgen.DG15(src, o).Bytes
		list14 := rapid.IntRange(0, 3).Draw(rt, "list14") > 0
		list15 := rapid.Bool().Draw(rt, "list15")
		store14 := rapid.IntRange(0, 3).Draw(rt, "store14") > 0
		store15 := rapid.Bool().Draw(rt, "store15")
		withCA := rapid.IntRange(0, 4).Draw(rt, "with-cardaccess") > 0
		hashFiles := map[int][]byte{1: files[1]}
		if list14 {
			hashFiles[14] = dg14Bytes
			listed[14] = true
		}
		if list15 {
			hashFiles[15] = dg15Bytes
			listed[15] = true
		}
		if rapid.Bool().Draw(rt, "list13") {
			hashFiles[13] = ldsgen.DG13(src).Bytes
		}
		sod := ldsgen.SOD(src, hashFiles)

		var doc document.Document
		var err error
		if doc.Mf.Lds1.Sod, err = document.NewSOD(sod.Bytes); err != nil {
			evid.Infra(rt, "NewSOD on a generated security object: %v", err)
		}
		if err = doc.NewDG(1, files[1]); err != nil {
			evid.Infra(rt, "NewDG(1): %v", err)
		}
		parsed14 := false
		if store14 {
			if err = doc.NewDG(14, dg14Bytes); err != nil {
				// a generated SecurityInfo the library cannot parse: not this property's subject
				evid.Count("complete/dg14-unparsable", 1)
				return
			}
			parsed14 = true
		}
		if store15 {
			if err = doc.NewDG(15, dg15Bytes); err != nil {
				evid.Count("complete/dg15-unparsable", 1)
				return
			}
		}
		if withCA {
			if doc.Mf.CardAccess, err = document.NewCardAccess(caBytes); err != nil {
				evid.Count("complete/cardaccess-unparsable", 1)
				return
			}
		}
		verr := doc.Verify()

		withheld14 := listed[14] && !store14
		withheld15 := listed[15] && !store15
		notContained := withCA && parsed14 && foreign > 0
		rep := map[string]any{"dg14": hex.EncodeToString(dg14Bytes), "cardAccess": hex.EncodeToString(caBytes), "cardAccessShape": string(shape),
			"sodLists14": listed[14], "sodLists15": listed[15], "dg14Stored": store14, "dg15Stored": store15, "cardAccessPresent": withCA,
			"sod": hex.EncodeToString(sod.Bytes), "dg1": hex.EncodeToString(files[1]), "dg15": hex.EncodeToString(dg15Bytes), "verifyErr": fmt.Sprint(verr)}
		class := "complete/ok"
		switch {
		case withheld14 && notContained, withheld15 && notContained, withheld14 && withheld15:
			class = "complete/several-defects"
		case withheld14:
			class = "complete/withheld-dg14"
		case withheld15:
			class = "complete/withheld-dg15"
		case notContained:
			class = "complete/cardaccess-not-in-dg14"
			first := bytes.IndexByte(shape, 'F')
			switch {
			case first == 0:
				evid.Count("complete/foreign-entry-first", 1)
			default:
				evid.Count("complete/foreign-entry-after-genuine", 1)
			}
		}
		defect := withheld14 || withheld15 || notContained
		evid.Case(class, defect, fmt.Sprintf("%s|%v%v%v%v%v|%d|%x", shape, listed[14], listed[15], store14, store15, withCA, len(dg14Entries), shortSum(caBytes, dg14Bytes)), rep)
		if !defect {
			if verr != nil {
				// stricter than the property requires: recorded, not a violation (C08 owns "genuine documents pass")
				evid.Count("complete/ok-but-refused", 1)
			}
			return
		}
		if verr == nil {
			evid.Fail(rt, "completeness", rep, "Document.Verify() passed although %s", describe(withheld14, withheld15, notContained, string(shape)))
		}
		ex := document.DocumentEx{Document: doc}
		ex.Session.PassiveAuthResult = &document.PassiveAuthResult{Success: true}
		ex.Session.DocumentVerifyErr = verr
		if s := ex.Summary(); s != nil && s.DataTrusted {
			evid.Fail(rt, "completeness-summary", rep, "DataTrusted although %s", describe(withheld14, withheld15, notContained, string(shape)))
		}
	})
}

func describe(w14, w15, nc bool, shape string) string {
	var s []string
	if w14 {
		s = append(s, "DG14 is listed in the security object but absent")
	}
	if w15 {
		s = append(s, "DG15 is listed in the security object but absent")
	}
	if nc {
		s = append(s, "EF.CardAccess holds an entry DG14 does not contain (entries g=in DG14, F=foreign: "+shape+")")
	}
	return fmt.Sprint(s)
}

func shortSum(a, b []byte) uint32 {
	var h uint32 = 2166136261
	for _, x := range [][]byte{a, b} {
		for _, c := range x {
			h = (h ^ uint32(c)) * 16777619
		}
	}
	return h
}
