// C02 — Trust verdicts are gated on passive authentication and completeness.
//
// Part (a): the full product of per-step session outcomes is enumerated
// exhaustively and DocumentEx.Summary() / Session.VerifiedChipAuthStatus() are
// compared with an independent specification function that encodes only the
// implications stated by the property.
package c02

import (
	"errors"
	"fmt"
	"testing"

	"github.com/gmrtd/gmrtd/document"

	"verifharness/evid"
)

const prop = "C02"

func TestMain(m *testing.M) { evid.Main(m, prop) }

type tri int // 0 absent, 1 failed, 2 succeeded

type outcome struct {
	PA       int // 0 nil, 1 Success=false, 2 Success=true & CardSec nil, 3 Success=true & CardSec set, 4 Success=false & CardSec set (inconsistent but constructible)
	PAErr    bool
	Verify   bool // DocumentVerifyErr != nil
	AA       tri
	AAErr    bool
	CAM      tri
	PaceErr  bool
	CA       tri
	CAErr    bool
	SodChain bool // PassiveAuthResult.Sod set
	Doc      int  // 0 empty document, 1 sample document
}

func (o outcome) key() string {
	return fmt.Sprintf("%d%v%v|%d%v|%d%v|%d%v|%v|%d", o.PA, o.PAErr, o.Verify, o.AA, o.AAErr, o.CAM, o.PaceErr, o.CA, o.CAErr, o.SodChain, o.Doc)
}

var sampleDoc = func() *document.Document {
	d, err := document.SampleDocument()
	if err != nil {
		return nil
	}
	return d
}()

func build(o outcome) *document.DocumentEx {
	var ex document.DocumentEx
	if o.Doc == 1 && sampleDoc != nil {
		ex.Document = *sampleDoc
	}
	s := &ex.Session
	chain := document.NewPassiveAuth([][]byte{{0x30, 0x00}, {0x30, 0x00}})
	switch o.PA {
	case 1:
		s.PassiveAuthResult = &document.PassiveAuthResult{Success: false}
	case 2:
		s.PassiveAuthResult = &document.PassiveAuthResult{Success: true}
	case 3:
		s.PassiveAuthResult = &document.PassiveAuthResult{Success: true, CardSec: chain}
	case 4:
		s.PassiveAuthResult = &document.PassiveAuthResult{Success: false, CardSec: chain}
	}
	if s.PassiveAuthResult != nil && o.SodChain {
		s.PassiveAuthResult.Sod = chain
	}
	if o.PAErr {
		s.PassiveAuthErr = errors.New("pa error")
	}
	if o.Verify {
		s.DocumentVerifyErr = errors.New("verify error")
	}
	switch o.AA {
	case 1:
		s.ActiveAuthResult = &document.ActiveAuthResult{Success: false}
	case 2:
		s.ActiveAuthResult = &document.ActiveAuthResult{Success: true}
	}
	if o.AAErr {
		s.ActiveAuthErr = errors.New("aa error")
	}
	switch o.CAM {
	case 1:
		s.PaceCamResult = &document.PaceCamResult{Success: false}
	case 2:
		s.PaceCamResult = &document.PaceCamResult{Success: true}
	}
	if o.PaceErr {
		s.PaceErr = errors.New("pace error")
	}
	switch o.CA {
	case 1:
		s.ChipAuthResult = &document.ChipAuthResult{Success: false}
	case 2:
		s.ChipAuthResult = &document.ChipAuthResult{Success: true}
	}
	if o.CAErr {
		s.ChipAuthErr = errors.New("ca error")
	}
	return &ex
}

// specCheck encodes exactly the implications of the property statement.
func specCheck(o outcome, dataTrusted bool, status document.ChipAuthStatus) string {
	paOK := o.PA == 2 || o.PA == 3
	cardSecOK := o.PA == 3
	if dataTrusted && !(paOK && !o.Verify) {
		return "DataTrusted although passive authentication did not succeed or the completeness check failed"
	}
	switch int(status) {
	case document.CHIP_AUTH_STATUS_NONE:
	case document.CHIP_AUTH_STATUS_AA:
		if !(o.AA == 2 && paOK) {
			return "ChipAuthenticity=AA although AA did not succeed or PA did not succeed"
		}
	case document.CHIP_AUTH_STATUS_CA:
		if !(o.CA == 2 && paOK) {
			return "ChipAuthenticity=CA although CA did not succeed or PA did not succeed"
		}
	case document.CHIP_AUTH_STATUS_PACE_CAM:
		if !(o.CAM == 2 && paOK && cardSecOK) {
			return "ChipAuthenticity=PACE-CAM although PACE-CAM did not succeed, PA did not succeed or CardSecurity was not authenticated"
		}
	default:
		return fmt.Sprintf("ChipAuthenticity has an undefined value %d", int(status))
	}
	return ""
}

func TestEnumerateSessionOutcomes(t *testing.T) {
	idx := 0
	complete := true
	bools := []bool{false, true}
	for pa := 0; pa <= 4; pa++ {
		for _, paErr := range bools {
			for _, ver := range bools {
				for aa := tri(0); aa <= 2; aa++ {
					for _, aaErr := range bools {
						for cam := tri(0); cam <= 2; cam++ {
							for _, paceErr := range bools {
								for ca := tri(0); ca <= 2; ca++ {
									for _, caErr := range bools {
										for _, sod := range bools {
											for doc := 0; doc <= 1; doc++ {
												idx++
												if !evid.MineIdx(idx) {
													continue
												}
												o := outcome{pa, paErr, ver, aa, aaErr, cam, paceErr, ca, caErr, sod, doc}
												ex := build(o)
												sum := ex.Summary()
												st := ex.Session.VerifiedChipAuthStatus()
												positive := sum.DataTrusted || sum.ChipAuthenticity != document.CHIP_AUTH_STATUS_NONE
												cls := "verdict-negative"
												if positive {
													cls = "verdict-positive"
												}
												evid.Case(cls, true, o.key(), map[string]any{"outcome": o, "dataTrusted": sum.DataTrusted, "chipAuthenticity": int(sum.ChipAuthenticity)})
												if sum.ChipAuthenticity != st {
													complete = false
													evid.Fail(t, "enum-summary-vs-session", o, "Summary().ChipAuthenticity=%d differs from Session.VerifiedChipAuthStatus()=%d", sum.ChipAuthenticity, st)
												}
												if msg := specCheck(o, sum.DataTrusted, sum.ChipAuthenticity); msg != "" {
													complete = false
													evid.Fail(t, "enum-gating", o, "%s (dataTrusted=%v chipAuthenticity=%d)", msg, sum.DataTrusted, sum.ChipAuthenticity)
												}
											}
										}
									}
								}
							}
						}
					}
				}
			}
		}
	}
	evid.Exhaustive("session-outcome-product", complete)
	evid.Metric("session_outcome_product_size", idx)
}
