// Package persona personalises a complete eMRTD for the chip simulator: LDS
// files from ldsgen, security objects from the issuer PKI, access-control and
// authentication keys, plus the ground truth an end-to-end oracle needs.
// No gmrtd import.
package persona

import (
	"encoding/binary"
	"fmt"
	"math/big"
	"sort"

	"verifharness/chipsim"
	"verifharness/detrand"
	"verifharness/issuer"
	"verifharness/lds"
	"verifharness/ldsgen"
	"verifharness/ref/der"
	"verifharness/ref/ecc"
	"verifharness/ref/iso9796"
	"verifharness/ref/mac"
	refmrz "verifharness/ref/mrz"
)

// Src adapts a deterministic stream to the Source interfaces of ldsgen and issuer.
type Src struct{ S *detrand.Stream }

func NewSrc(seed []byte) *Src { return &Src{S: detrand.New(seed)} }

func (s *Src) Bytes(n int) []byte { return s.S.Bytes(n) }
func (s *Src) Intn(n int) int {
	if n <= 1 {
		return 0
	}
	return int(binary.BigEndian.Uint64(s.S.Bytes(8)) % uint64(n))
}
func (s *Src) Bool() bool { return s.S.Bytes(1)[0]&1 == 1 }

// Opts selects the point of the personalisation space.
type Opts struct {
	Seed    []byte
	Country string // alpha-2 of issuer.Countries ("" = DE)
	Layout  string // TD1/TD2/TD3 ("" = TD3)

	Access     string     // "BAC", "PACE+BAC", "PACE", "PACE-CAM", "BAC+PACE-UNSUPPORTED", "NONE" (no access control)
	PaceID     int        // 8..18 (0 = 12)
	PaceCipher mac.Cipher // "" = AES-128
	CAN        string     // "" = 123456

	DGs      []int // optional data groups to store: subset of 2,7,11,12,13,16 (DG1 always; 14/15 follow from CA/AA)
	ExtraDGs []int // data groups the reader does not support (3,4,5...) listed in the SOD and stored on the chip

	AA         string // "", "RSA", "ECDSA"
	AARSABits  int
	AATrailer  int
	AACurve    string
	AADER      bool
	CA         bool
	CACurve    string
	CACipher   mac.Cipher
	CAKeyID    bool
	CAExplicit bool
	CAInferred bool // no ChipAuthenticationInfo (suite inferred: 3DES + MSE:Set KAT)

	Trusted   bool // the returned trust anchors contain the issuing CSCA
	RSAIssuer bool // RSA-2048 PKI instead of P-256
	Profile   *issuer.Profile

	// sizes: target total size in bytes of DG13 (0 = small random); MaxImage bounds image payloads
	DG13Size int
	MaxImage int

	// transport
	Extended bool
	ReadCap  int
	LeReject int
	ChunkMod int // >0: the chip returns between 1 and want bytes, varying with the offset

	// hostile variations (C02 / C11); the zero value is a genuine chip
	SubstituteAAKey  bool // chip answers AA with its own key pair; DG15 on the chip is the attacker's, SOD unchanged
	SubstituteCAKey  bool // same for DG14 / CA
	CloneWithoutKeys bool // all files copied, no private keys: AA/CA answered with a random other key
	WithholdDG14     bool // DG14 listed in the SOD but not stored
	WithholdDG15     bool
	WithholdSW       uint16 // status the chip gives for SELECT of a withheld DG14/DG15 (0 = 6A82 "file not found")
	DowngradeCA      bool   // EF.CardAccess advertises a PACEInfo that DG14 does not contain
	DowngradePos     int    // where the foreign entry goes: 0 first, 1 last, 2 after the first genuine entry
	DowngradeKind    int    // 0 weaker PACE suite on another parameter id, 1 unknown OID, 2 the genuine suite on another parameter id
	NoCardSecurity   bool

	// CAMKeys arranges the Chip Authentication keys of EF.CardSecurity on PACE-CAM chips (all genuine):
	// 0 the mapping key alone; 1 a key on another standardised curve first; 2 a generic key on the same
	// curve first (the mapping key is told apart by its key id) and another curve's key last;
	// 3 the mapping key without a key id between keys of two other curves.
	CAMKeys int
}

// Persona is a personalised document.
type Persona struct {
	Opts    Opts
	Cfg     chipsim.Config
	MRZ     string
	MRZInfo string
	DocNo   string
	DOB     string
	Expiry  string
	CAN     string
	PKI     *issuer.PKI
	Anchors [][]byte // trust anchors handed to the reader (the issuer's CSCA iff Trusted, else another CSCA)

	// ground truth
	Files       map[string][]byte // by name: "COM","SOD","DG1",...,"CardAccess","CardSecurity"
	SODListed   []int             // data groups listed in the SOD
	Stored      []int             // data groups stored on the chip
	ExpectPACE  bool
	ExpectBAC   bool
	ExpectCAM   bool
	ExpectAA    bool
	ExpectCA    bool // CA is expected to run and succeed (available and neither AA nor CAM completed)
	ExpectPA    bool
	SizeClasses map[string]int
}

func fid(dg int) uint16 { return 0x0100 + uint16(dg) }

// sizedDG13 builds a DG13 whose total encoded length is exactly total (>= 2).
func sizedDG13(total int, fill func(n int) []byte) []byte {
	if total < 2 {
		total = 2
	}
	// header: tag 6D (1) + length octets
	for hdr := 2; hdr <= 4; hdr++ {
		content := total - hdr
		if content < 0 {
			continue
		}
		l := len(der.Length(content, der.Minimal))
		if 1+l == hdr {
			return der.TLV(0x6D, fill(content))
		}
	}
	return der.TLV(0x6D, fill(total))
}

// Build personalises a document.
func Build(o Opts) (*Persona, error) {
	if o.Country == "" {
		o.Country = "DE"
	}
	if o.Layout == "" {
		o.Layout = "TD3"
	}
	if o.PaceID == 0 {
		o.PaceID = 12
	}
	if o.PaceCipher == "" {
		o.PaceCipher = "AES-128"
	}
	if o.CAN == "" {
		o.CAN = "123456"
	}
	if o.CACurve == "" {
		o.CACurve = "P-256"
	}
	if o.CACipher == "" {
		o.CACipher = "AES-128"
	}
	if o.AACurve == "" {
		o.AACurve = "P-256"
	}
	if o.AARSABits == 0 {
		o.AARSABits = 1024
	}
	if o.AATrailer == 0 {
		o.AATrailer = 0xBC
	}
	src := NewSrc(append([]byte("persona"), o.Seed...))
	p := &Persona{Opts: o, CAN: o.CAN, Files: map[string][]byte{}, SizeClasses: map[string]int{}}

	// ---- identity
	f := ldsgen.MRZFields(src, o.Layout)
	f.Issuer = issuer.MRZCode(o.Country)
	f.Nationality = f.Issuer
	dg1, err := ldsgen.DG1For(f)
	if err != nil {
		return nil, fmt.Errorf("DG1: %w", err)
	}
	full, err := refmrz.Build(f)
	if err != nil {
		return nil, err
	}
	p.MRZ, p.DocNo, p.DOB, p.Expiry = full, f.DocNo, f.DOB, f.Expiry
	p.MRZInfo = refmrz.MRZInformation(f.DocNo, f.DOB, f.Expiry)

	df := map[int][]byte{1: dg1.Bytes}
	lo := ldsgen.Opts{MaxImage: o.MaxImage, SmallKeys: true}
	if lo.MaxImage == 0 {
		lo.MaxImage = 3000
	}
	for _, dg := range o.DGs {
		switch dg {
		case 2:
			df[2] = ldsgen.DG2(src, lo).Bytes
		case 7:
			df[7] = ldsgen.DG7(src, lo).Bytes
		case 11:
			df[11] = ldsgen.DG11(src, lo).Bytes
		case 12:
			df[12] = ldsgen.DG12(src, lo).Bytes
		case 13:
			if o.DG13Size > 0 {
				df[13] = sizedDG13(o.DG13Size, src.Bytes)
			} else {
				df[13] = ldsgen.DG13(src).Bytes
			}
		case 16:
			df[16] = ldsgen.DG16(src).Bytes
		}
	}
	extra := map[int][]byte{}
	for _, dg := range o.ExtraDGs {
		// unsupported data groups (e.g. DG3 fingerprints): opaque content with the right tag
		tags := map[int]uint32{3: 0x63, 4: 0x76, 5: 0x65, 6: 0x66, 8: 0x68, 9: 0x69, 10: 0x6A}
		if t, ok := tags[dg]; ok {
			extra[dg] = der.TLV(t, src.Bytes(20+src.Intn(100)))
		}
	}

	// ---- access control
	mf := map[uint16][]byte{}
	cfg := chipsim.Config{MRZInfo: p.MRZInfo, CAN: o.CAN, Extended: o.Extended, ReadCap: o.ReadCap, LeReject: o.LeReject}
	var caInfos [][]byte // SecurityInfos of EF.CardAccess
	var dg14Infos [][]byte
	pid := big.NewInt(int64(o.PaceID))
	switch o.Access {
	case "BAC":
		cfg.BAC = true
		p.ExpectBAC = true
	case "PACE+BAC", "PACE", "PACE-CAM":
		mapping := "GM"
		cp := o.PaceCipher
		if o.Access == "PACE-CAM" {
			mapping = "CAM"
			if cp == "3DES" {
				cp = "AES-128"
			}
		}
		oid := chipsim.PaceOID(mapping, cp)
		cfg.PACE = []chipsim.PaceEntry{{OID: oid, ParamID: o.PaceID}}
		if mapping == "GM" && len(o.Seed) > 2 && o.Seed[2]&3 == 1 {
			// a second supported suite on ANOTHER parameter id, listed first (the chip offers both; which
			// one a reader prefers is its business, but protocol and parameter id must come from one entry)
			other, ocp := 12, mac.Cipher("3DES")
			if o.PaceID == 12 {
				other = 13
			}
			if cp == "3DES" {
				ocp = "AES-128"
			}
			cfg.PACE = append(cfg.PACE, chipsim.PaceEntry{OID: chipsim.PaceOID("GM", ocp), ParamID: other})
			caInfos = append(caInfos, lds.PACEInfo(chipsim.PaceOID("GM", ocp), 2, big.NewInt(int64(other))))
		}
		caInfos = append(caInfos, lds.PACEInfo(oid, 2, pid))
		if o.Access == "PACE-CAM" {
			// CAM documents also advertise GM
			gm := chipsim.PaceOID("GM", cp)
			cfg.PACE = append(cfg.PACE, chipsim.PaceEntry{OID: gm, ParamID: o.PaceID})
			caInfos = append(caInfos, lds.PACEInfo(gm, 2, pid))
		}
		cfg.BAC = o.Access == "PACE+BAC"
		p.ExpectPACE = true
		p.ExpectCAM = o.Access == "PACE-CAM"
	case "NONE":
		// no access control at all (first-generation documents): every file is readable in the clear
		cfg.OpenLDS = true
	case "BAC+PACE-UNSUPPORTED":
		// EF.CardAccess advertises PACE only in forms the library does not implement (integrated
		// mapping, DH, an OID of the id-PACE arc nobody knows); the chip also supports BAC, which is
		// what a reader holding the MRZ has to fall back to
		cfg.BAC = true
		p.ExpectBAC = true
		unsupported := [][]string{
			{"0.4.0.127.0.7.2.2.4.4.2"},                            // ECDH-IM-AES-128
			{"0.4.0.127.0.7.2.2.4.1.2", "0.4.0.127.0.7.2.2.4.3.1"}, // DH-GM-AES-128, DH-IM-3DES
			{"0.4.0.127.0.7.2.2.4.9.2"},                            // unknown mapping
			{"0.4.0.127.0.7.2.2.4.4.4", "0.4.0.127.0.7.2.2.4.2.9"}, // ECDH-IM-AES-256, unknown cipher
		}[int(o.Seed[0])%4]
		for _, u := range unsupported {
			caInfos = append(caInfos, lds.PACEInfo(u, 2, pid))
		}
	}
	dg14Infos = append(dg14Infos, caInfos...)

	// ---- chip authentication
	needDG14 := false
	var camKey *chipsim.CAKey
	if o.Access == "PACE-CAM" {
		cv := ecc.ByPaceID(o.PaceID)
		sk := cv.ScalarFromBytes(src.Bytes(cv.ByteLen + 8))
		camKey = &chipsim.CAKey{KeyID: pid, Curve: cv, Priv: sk}
		cfg.CAMKey = camKey
	}
	if o.CA {
		cv := ecc.ByName(o.CACurve)
		sk := cv.ScalarFromBytes(src.Bytes(cv.ByteLen + 8))
		var keyID *big.Int
		if o.CAKeyID {
			keyID = big.NewInt(int64(1 + src.Intn(200)))
		}
		pub := cv.ScalarBaseMult(sk)
		spki := cv.SPKINamed(pub)
		if o.CAExplicit {
			spki = cv.SPKIExplicit(pub, true, false)
		}
		chipPriv := sk
		if o.SubstituteCAKey || o.CloneWithoutKeys {
			chipPriv = cv.ScalarFromBytes(src.Bytes(cv.ByteLen + 8))
		}
		cfg.CA = []chipsim.CAKey{{KeyID: keyID, Curve: cv, Priv: chipPriv}}
		cfg.AllowKAT = true
		if !o.CAInferred {
			dg14Infos = append(dg14Infos, lds.ChipAuthInfo(chipsim.CAOID(o.CACipher), 1, keyID))
		}
		dg14Infos = append(dg14Infos, lds.ChipAuthPubKeyInfo(lds.OidPkECDH, spki, keyID))
		needDG14 = true
	}

	// ---- active authentication
	if o.AA != "" {
		aa := &chipsim.AAKey{}
		var spki []byte
		if o.AA == "RSA" {
			keys := iso9796.PoolBits(o.AARSABits)
			if len(keys) == 0 {
				return nil, fmt.Errorf("no pool key of %d bits", o.AARSABits)
			}
			k := keys[src.Intn(len(keys))]
			aa.N, aa.D, aa.Trailer = k.N, k.D, o.AATrailer
			spki = iso9796.SPKI(k.N, k.E)
			if o.SubstituteAAKey || o.CloneWithoutKeys {
				k2 := keys[(src.Intn(len(keys)-1)+1+indexOf(keys, k))%len(keys)]
				if k2.N.Cmp(k.N) == 0 {
					return nil, fmt.Errorf("pool has a single key of %d bits", o.AARSABits)
				}
				aa.N, aa.D = k2.N, k2.D
			}
		} else {
			cv := ecc.ByName(o.AACurve)
			sk := cv.ScalarFromBytes(src.Bytes(cv.ByteLen + 8))
			aa.Curve, aa.Priv, aa.DERSig = cv, sk, o.AADER
			if !o.AADER && cv.ByteLen <= 32 && len(o.Seed) > 3 && o.Seed[3]&3 == 0 {
				// plain r||s signatures whose first octet looks like something else (a DER SEQUENCE tag,
				// a leading zero): on the fast curves the chip searches its nonce for one
				v := []byte{0x30, 0x00, 0x02, 0x30}[int(o.Seed[3]>>2)&3]
				aa.SteerFirstOctet = &v
			}
			spki = cv.SPKIExplicit(cv.ScalarBaseMult(sk), true, false)
			if o.SubstituteAAKey || o.CloneWithoutKeys {
				aa.Priv = cv.ScalarFromBytes(src.Bytes(cv.ByteLen + 8))
			}
			sigOID := map[int]string{224: lds.OidEcdsaPlainSHA224, 256: lds.OidEcdsaPlainSHA256, 384: lds.OidEcdsaPlainSHA384, 512: lds.OidEcdsaPlainSHA512}
			bits := 224
			switch n := cv.N.BitLen(); {
			case n >= 512:
				bits = 512
			case n >= 384:
				bits = 384
			case n >= 256:
				bits = 256
			}
			dg14Infos = append(dg14Infos, lds.ActiveAuthInfo(sigOID[bits]))
			needDG14 = true
		}
		cfg.AA = aa
		df[15] = lds.DG15(spki)
	}
	if len(caInfos) > 0 {
		// ICAO 9303-11 9.2.11: the SecurityInfos of EF.CardAccess SHALL also be stored in DG14
		needDG14 = true
	}
	if needDG14 {
		df[14] = lds.DG14(dg14Infos...)
	}

	// ---- issuer
	prof := issuer.DefaultProfile(o.Country)
	if o.RSAIssuer {
		prof = issuer.DefaultRSAProfile(o.Country)
	}
	if o.Profile != nil {
		prof = *o.Profile
		prof.Country = o.Country
	}
	pki, err := issuer.NewPKI(NewSrc(append([]byte("pki"), o.Seed...)), prof)
	if err != nil {
		return nil, fmt.Errorf("PKI: %w", err)
	}
	p.PKI = pki
	sodDGs := map[int][]byte{}
	for k, v := range df {
		sodDGs[k] = v
	}
	for k, v := range extra {
		sodDGs[k] = v
	}
	// the order of the hash list follows from the seed
	// (no further draws, so every other choice of an existing persona stays what it was)
	sod, err := pki.SignSOD(sodDGs, issuer.SODOptions{HashOrder: int(o.Seed[len(o.Seed)-1]) % 4})
	if err != nil {
		return nil, fmt.Errorf("SOD: %w", err)
	}
	for k := range sodDGs {
		p.SODListed = append(p.SODListed, k)
	}
	sort.Ints(p.SODListed)

	// attacker substitutions after signing
	if o.SubstituteAAKey && cfg.AA != nil {
		if cfg.AA.N != nil {
			df[15] = lds.DG15(iso9796.SPKI(cfg.AA.N, pubExp(cfg.AA.N)))
		} else {
			df[15] = lds.DG15(cfg.AA.Curve.SPKIExplicit(cfg.AA.Curve.ScalarBaseMult(cfg.AA.Priv), true, false))
		}
	}
	if o.SubstituteCAKey && len(cfg.CA) > 0 {
		k := cfg.CA[0]
		spki := k.Curve.SPKINamed(k.Curve.ScalarBaseMult(k.Priv))
		infos := append([][]byte{}, caInfos...)
		if !o.CAInferred {
			infos = append(infos, lds.ChipAuthInfo(chipsim.CAOID(o.CACipher), 1, k.KeyID))
		}
		infos = append(infos, lds.ChipAuthPubKeyInfo(lds.OidPkECDH, spki, k.KeyID))
		df[14] = lds.DG14(infos...)
	}
	if o.WithholdDG14 {
		delete(df, 14)
	}
	if o.WithholdDG15 {
		delete(df, 15)
	}

	// ---- master file
	if len(caInfos) > 0 {
		ca := caInfos
		if o.DowngradeCA {
			// an entry that DG14 does not contain (e.g. a weaker suite injected by an attacker)
			// (a weak suite on another parameter id, so that it can never coincide with a genuine entry)
			otherID := 8
			if o.PaceID == 8 {
				otherID = 9
			}
			var rogue []byte
			switch o.DowngradeKind {
			case 1:
				rogue = lds.UnknownInfo("1.3.6.1.4.1.99999.7."+fmt.Sprint(otherID), []byte{1, 2, 3})
			case 2:
				// the chip's own PACE suite on a parameter id DG14 does not list
				rogue = lds.PACEInfo(cfg.PACE[0].OID, 2, big.NewInt(int64(otherID)))
				cfg.PACE = append(cfg.PACE, chipsim.PaceEntry{OID: cfg.PACE[0].OID, ParamID: otherID})
			default:
				rogue = lds.PACEInfo(chipsim.PaceOID("GM", "3DES"), 2, big.NewInt(int64(otherID)))
				cfg.PACE = append(cfg.PACE, chipsim.PaceEntry{OID: chipsim.PaceOID("GM", "3DES"), ParamID: otherID})
			}
			switch o.DowngradePos {
			case 1:
				ca = append(append([][]byte{}, caInfos...), rogue)
			case 2:
				ca = append([][]byte{caInfos[0], rogue}, caInfos[1:]...)
			default:
				ca = append([][]byte{rogue}, caInfos...)
			}
		}
		mf[chipsim.FidCardAccess] = lds.CardAccess(ca...)
		p.Files["CardAccess"] = mf[chipsim.FidCardAccess]
	}
	if camKey != nil && !o.NoCardSecurity {
		camPoint := camKey.Curve.Encode(camKey.Curve.ScalarBaseMult(camKey.Priv))
		pubKeyInfo := lds.ChipAuthPubKeyInfo(lds.OidPkECDH, lds.SPKIStdDomain(o.PaceID, camPoint), pid)
		keyInfos := [][]byte{pubKeyInfo}
		if o.CAMKeys%4 != 0 {
			extra := func(label string, id int) []byte {
				ocv := ecc.ByPaceID(id)
				k := ocv.ScalarFromBytes(detrand.New(append([]byte("camextra-"+label), o.Seed...)).Bytes(ocv.ByteLen + 8))
				if k.Sign() == 0 {
					k = big.NewInt(11)
				}
				return ocv.Encode(ocv.ScalarBaseMult(k))
			}
			other, third := 12, 16
			if o.PaceID == 12 {
				other = 10
			}
			if o.PaceID == 16 {
				third = 15
			}
			otherKey := func(id int, withID bool) []byte {
				var kid *big.Int
				if withID {
					kid = big.NewInt(int64(id))
				}
				return lds.ChipAuthPubKeyInfo(lds.OidPkECDH, lds.SPKIStdDomain(id, extra(fmt.Sprint(id), id)), kid)
			}
			switch o.CAMKeys % 4 {
			case 1:
				keyInfos = [][]byte{otherKey(other, true), pubKeyInfo}
			case 2:
				generic := lds.ChipAuthPubKeyInfo(lds.OidPkECDH, lds.SPKIStdDomain(o.PaceID, extra("generic", o.PaceID)), big.NewInt(int64(o.PaceID+40)))
				keyInfos = [][]byte{generic, pubKeyInfo, otherKey(other, false)}
			case 3:
				noID := lds.ChipAuthPubKeyInfo(lds.OidPkECDH, lds.SPKIStdDomain(o.PaceID, camPoint), nil)
				keyInfos = [][]byte{otherKey(third, true), noID, otherKey(other, true)}
			}
		}
		secInfos := lds.SecurityInfos(append(append([][]byte{}, caInfos...), keyInfos...)...)
		cs, err := pki.SignCardSecurity(secInfos, issuer.CMSOptions{})
		if err != nil {
			return nil, fmt.Errorf("CardSecurity: %w", err)
		}
		mf[chipsim.FidCardSecurity] = cs
		p.Files["CardSecurity"] = cs
		if o.CloneWithoutKeys {
			cv := camKey.Curve
			cfg.CAMKey = &chipsim.CAKey{KeyID: pid, Curve: cv, Priv: cv.ScalarFromBytes(src.Bytes(cv.ByteLen + 8))}
		}
	}

	// ---- DF files
	dfFiles := map[uint16][]byte{chipsim.FidSOD: sod}
	var dgList []int
	for k, v := range df {
		dfFiles[fid(k)] = v
		p.Files[fmt.Sprintf("DG%d", k)] = v
		dgList = append(dgList, k)
	}
	for k, v := range extra {
		dfFiles[fid(k)] = v
		dgList = append(dgList, k)
	}
	sort.Ints(dgList)
	p.Stored = dgList
	com := ldsgen.COMFor("0107", "040000", dgList)
	dfFiles[chipsim.FidCOM] = com.Bytes
	p.Files["COM"], p.Files["SOD"] = com.Bytes, sod
	cfg.MF, cfg.DF = mf, dfFiles
	if o.WithholdSW != 0 {
		cfg.AbsentSW = map[uint16]uint16{}
		if o.WithholdDG14 {
			cfg.AbsentSW[0x010E] = o.WithholdSW
		}
		if o.WithholdDG15 {
			cfg.AbsentSW[0x010F] = o.WithholdSW
		}
	}
	if o.ChunkMod > 0 {
		m := o.ChunkMod
		// the 4-byte header read is always answered in full (a chip that splits it is
		// outside the conforming domain of C08; C13 covers it with 'error allowed')
		cfg.ChunkFn = func(offset, want int) int {
			if want <= 4 {
				return want
			}
			return 1 + (offset*7+m)%want
		}
	}
	cfg.Rand = detrand.New(append([]byte("chiprand"), o.Seed...)).Bytes
	p.Cfg = cfg

	// ---- expectations
	genuine := !(o.SubstituteAAKey || o.SubstituteCAKey || o.CloneWithoutKeys || o.WithholdDG14 || o.WithholdDG15 || o.DowngradeCA)
	p.ExpectAA = o.AA != "" && genuine
	p.ExpectCA = o.CA && !p.ExpectAA && !p.ExpectCAM && genuine
	p.ExpectPA = o.Trusted && genuine
	if o.Trusted {
		p.Anchors = pki.TrustAnchorsDER()
	} else {
		// another CSCA of the same country with ANOTHER key (RSA keys come from a pool by
		// index, so the index must differ; EC keys are drawn from the source)
		if prof.CSCAKey.Type == "rsa" {
			prof.CSCAKey.Index, prof.DSKey.Index = prof.CSCAKey.Index+2, prof.DSKey.Index+1
		}
		other, err := issuer.NewPKI(NewSrc(append([]byte("other-pki"), o.Seed...)), prof)
		if err != nil {
			return nil, err
		}
		p.Anchors = other.TrustAnchorsDER()
	}
	for name, b := range p.Files {
		p.SizeClasses[name] = len(b)
	}
	return p, nil
}

func indexOf(keys []iso9796.Key, k iso9796.Key) int {
	for i := range keys {
		if keys[i].N.Cmp(k.N) == 0 {
			return i
		}
	}
	return 0
}

func pubExp(n *big.Int) *big.Int {
	for _, k := range iso9796.Pool() {
		if k.N.Cmp(n) == 0 {
			return k.E
		}
	}
	return big.NewInt(65537)
}

// NewChip instantiates a fresh chip for this persona (a chip is single use).
func (p *Persona) NewChip() *chipsim.Chip {
	cfg := p.Cfg
	cfg.Rand = detrand.New(append([]byte("chiprand"), p.Opts.Seed...)).Bytes
	return chipsim.New(cfg)
}
