// C10 — Protected commands are well formed; counters stay in lock-step.
//
// Domain: a secure-messaging session (3DES | AES-128/192/256, drawn keys,
// initial SSC incl. values about to wrap) and a history of 1..60 commands over
// the four ISO 7816-4 cases, short and extended, odd and even INS, data lengths
// on block / 127-128 / 255-256 / 65279-65280 boundaries of the plain and of the
// PROTECTED data field and up to the largest length whose protected Lc still
// fits 65535, Le in {0,1,255,256,257,65535,65536,...}.  Every command goes
// through iso7816.NfcSession.DoAPDU; the bytes handed to the transceiver are
// parsed by ref/apdu and unwrapped by the chip-side ref/sm, which answers with
// a genuine protected response carrying drawn data and an arbitrary status.
//
// Oracle (DESIGN.md §4 C10): CLA = 0C; data objects [85|87] [97] 8E in this
// order, once each; padding indicator 01; tag by INS parity; DO97 present iff
// an expected length was requested, of the right width and value; Le' = 00 /
// 0000; MAC valid under the chip's SSC+1; plaintext = intended (INS, P1, P2,
// data, Ne); exactly one transmission per command; the response is delivered
// unchanged; after each exchange the library counter equals the chip's, and
// the next exchange authenticates on both sides.  Unprotected ("naked")
// statuses are generated only as a final, informative event.
package c10

import (
	"bytes"
	"encoding/hex"
	"encoding/json"
	"fmt"
	"hash/fnv"
	"log/slog"
	"os"
	"testing"

	"github.com/gmrtd/gmrtd/cryptoutils"
	"github.com/gmrtd/gmrtd/iso7816"
	"pgregory.net/rapid"

	"verifharness/evid"
	"verifharness/ref/mac"
	"verifharness/ref/sm"
)

const prop = "C10"

// F15: a short command whose protected data field needs extended length is
// sent with Le' = 0100 (Ne = 256) instead of 0000.
const f15 = "F15-sm-expansion-le"

func TestMain(m *testing.M) {
	slog.SetDefault(slog.New(slog.DiscardHandler))
	evid.Main(m, prop)
}

func TestAASelfTest(t *testing.T) {
	if err := sm.SelfTest(); err != nil {
		evid.Infra(t, "reference self-test failed: %v", err)
	}
}

// ---------------------------------------------------------------- one exchange

// exch is the replayable unit: session state before the command, the intended
// command and the chip's intended answer.
type exch struct {
	Alg   string `json:"alg"`
	KEnc  string `json:"kenc"`
	KMac  string `json:"kmac"`
	SSC   string `json:"ssc_before"`
	CLA   byte   `json:"cla,omitempty"` // class byte of the PLAIN command handed to DoAPDU (the protected one must be 0C whatever this is)
	INS   byte   `json:"ins"`
	P1    byte   `json:"p1"`
	P2    byte   `json:"p2"`
	Data  string `json:"data"`
	Ne    int    `json:"ne"`
	RData string `json:"rdata"`
	RSW   uint16 `json:"rsw"`
	Sent  string `json:"sent,omitempty"` // filled on failure: bytes handed to the transceiver
}

func unhex(s string) []byte {
	b, err := hex.DecodeString(s)
	if err != nil {
		panic(err)
	}
	return b
}

func libAlg(c mac.Cipher) cryptoutils.BlockCipherAlg {
	if c == mac.TDES {
		return cryptoutils.TDES
	}
	return cryptoutils.AES
}

type link struct {
	hook func(capdu []byte) []byte
	sent int
}

func (l *link) Transceive(cla, ins, p1, p2 int, data []byte, le int, encoded []byte) []byte {
	l.sent++
	return l.hook(encoded)
}

// world is one library session talking to one chip model.
type world struct {
	cipher     mac.Cipher
	kenc, kmac []byte
	lk         *link
	nfc        *iso7816.NfcSession
	chip       *sm.Session
	// results handed to the caller by earlier exchanges of this session (the slices DoAPDU
	// returned) with what they must still hold: a later exchange must not change them
	kept []keptResult
}

type keptResult struct {
	n    int
	got  []byte
	want []byte
}

func newWorld(c mac.Cipher, kenc, kmac, ssc []byte) (*world, error) {
	// (who owns the key / counter buffers passed to the constructors afterwards is not something the
	// property states, so they are handed over as private copies and left alone)
	lib, err := iso7816.NewSecureMessaging(libAlg(c), bytes.Clone(kenc), bytes.Clone(kmac))
	if err != nil {
		return nil, err
	}
	if err := lib.SetSSC(bytes.Clone(ssc)); err != nil {
		return nil, err
	}
	w := &world{cipher: c, kenc: kenc, kmac: kmac, lk: &link{}, chip: sm.New(c, kenc, kmac, ssc)}
	w.nfc = iso7816.NewNfcSession(w.lk)
	w.nfc.SetSecureMessaging(lib)
	return w, nil
}

func (w *world) state(ins, p1, p2 byte, data []byte, ne int, rdata []byte, rsw uint16) exch {
	return exch{Alg: string(w.cipher), KEnc: hex.EncodeToString(w.kenc), KMac: hex.EncodeToString(w.kmac), SSC: hex.EncodeToString(w.nfc.SM().SSC()),
		INS: ins, P1: p1, P2: p2, Data: hex.EncodeToString(data), Ne: ne, RData: hex.EncodeToString(rdata), RSW: rsw}
}

func head(b []byte) string {
	if len(b) <= 48 {
		return hex.EncodeToString(b)
	}
	return fmt.Sprintf("%s..%s(len %d)", hex.EncodeToString(b[:24]), hex.EncodeToString(b[len(b)-12:]), len(b))
}

// inF15 is the input class of finding F15.
func inF15(c mac.Cipher, nc, ne int) bool {
	return nc <= 255 && ne <= 256 && protectedLen(c, nc, ne) > 255
}

// protectedLen is the length of the protected data field (DO85/87, DO97, DO8E).
func protectedLen(c mac.Cipher, nc, ne int) int {
	n := 0
	if nc > 0 {
		v := 1 + (nc/c.BlockLen()+1)*c.BlockLen()
		n += 1 + len(sm.BERLen(v)) + v
	}
	if ne > 0 {
		if nc > 255 || ne > 256 {
			n += 4
		} else {
			n += 3
		}
	}
	return n + 10
}

// maxData is the largest command data length whose protected Lc fits 65535.
func maxData(c mac.Cipher, ne int) int {
	n := 65535
	for protectedLen(c, n, ne) > 65535 {
		n--
	}
	return n
}

// exchange performs one DoAPDU on the world and applies the whole oracle.
// skipLe suppresses only the Le' comparison (open finding F15).
func (w *world) exchange(e exch, skipLe bool) (msg string, sent []byte) {
	data, rdata := unhex(e.Data), unhex(e.RData)
	if len(data) == 0 {
		data = nil
	}
	// The command data is handed over as a sub-slice with live bytes behind it (as a caller
	// cutting a payload into chunks would): protecting the command must neither change the
	// caller's data nor write into the bytes that follow it.
	const guardLen = 48
	var backing, beforeBuf []byte
	if len(data) > 0 {
		backing = make([]byte, len(data)+guardLen)
		copy(backing, data)
		for i := len(data); i < len(backing); i++ {
			backing[i] = byte(0xC3 ^ i)
		}
		beforeBuf = bytes.Clone(backing)
		data = backing[:len(data)]
	}
	var chipMsg string
	var u *sm.Unwrapped
	w.lk.hook = func(capdu []byte) []byte {
		sent = bytes.Clone(capdu)
		var err error
		u, err = w.chip.UnwrapCommand(capdu)
		if err != nil {
			chipMsg = "chip cannot authenticate / parse the protected command: " + err.Error()
			return []byte{0x69, 0x88}
		}
		return w.chip.WrapResponse(rdata, e.RSW, e.INS&1 == 1)
	}
	before := w.lk.sent
	var out *iso7816.RApdu
	var err error
	func() {
		defer func() {
			if r := recover(); r != nil {
				msg = fmt.Sprintf("DoAPDU panicked: %v", r)
			}
		}()
		out, err = w.nfc.DoAPDU(iso7816.NewCApdu(e.CLA, e.INS, e.P1, e.P2, data, e.Ne), "c10")
	}()
	if msg != "" {
		return msg, sent
	}
	if n := w.lk.sent - before; n != 1 {
		return fmt.Sprintf("%d transmissions for one command", n), sent
	}
	if backing != nil && !bytes.Equal(backing, beforeBuf) {
		i := 0
		for i < len(backing) && backing[i] == beforeBuf[i] {
			i++
		}
		where := "the command data"
		if i >= len(data) {
			where = "the caller's bytes BEHIND the command data (spare capacity of the slice)"
		}
		return fmt.Sprintf("DoAPDU modified %s at offset %d of a %d-byte data field (was %02x, is %02x)", where, i, len(data), beforeBuf[i], backing[i]), sent
	}
	if chipMsg != "" {
		return chipMsg + " (sent " + head(sent) + ")", sent
	}
	origExt := len(data) > 255 || e.Ne > 256
	switch {
	case u.CLA != 0x0C:
		return fmt.Sprintf("class %02x", u.CLA), sent
	case u.INS != e.INS || u.P1 != e.P1 || u.P2 != e.P2:
		return fmt.Sprintf("header %02x %02x %02x differs from the intended %02x %02x %02x", u.INS, u.P1, u.P2, e.INS, e.P1, e.P2), sent
	case !bytes.Equal(u.Data, data):
		return fmt.Sprintf("chip decrypted %d data bytes (%s), intended %d (%s)", len(u.Data), head(u.Data), len(data), head(data)), sent
	case (len(data) > 0) != (u.HasDO85 || u.HasDO87):
		return fmt.Sprintf("cryptogram object present=%v for %d data bytes", u.HasDO85 || u.HasDO87, len(data)), sent
	case len(data) > 0 && u.PaddingIndicator != 0x01:
		return fmt.Sprintf("padding-content indicator %02x", u.PaddingIndicator), sent
	case len(data) > 0 && u.HasDO85 != (e.INS&1 == 1):
		return fmt.Sprintf("DO85=%v for INS %02x", u.HasDO85, e.INS), sent
	case u.HasDO97 != (e.Ne > 0):
		return fmt.Sprintf("DO97 present=%v but intended Ne=%d", u.HasDO97, e.Ne), sent
	case u.Ne != e.Ne:
		return fmt.Sprintf("DO97 %x encodes Ne=%d, intended %d", u.DO97, u.Ne, e.Ne), sent
	}
	if u.HasDO97 {
		want := 1
		if origExt {
			want = 2
		}
		okWidth := len(u.DO97) == want || (!origExt && u.Extended && len(u.DO97) == 2)
		if !okWidth {
			return fmt.Sprintf("DO97 of %d octets (%x) for a %s command", len(u.DO97), u.DO97, map[bool]string{false: "short", true: "extended"}[origExt]), sent
		}
	}
	if wantExt := origExt || u.ProtectedNc > 255; u.Extended != wantExt {
		return fmt.Sprintf("protected APDU extended=%v, want %v (Lc'=%d)", u.Extended, wantExt, u.ProtectedNc), sent
	}
	if !skipLe {
		wantLe := 256
		if u.Extended {
			wantLe = 65536
		}
		if u.ProtectedNe != wantLe {
			return fmt.Sprintf("Le' of the protected APDU encodes Ne=%d; ICAO 9303-11 §9.8.4 requires 00 / 0000 (sent %s)", u.ProtectedNe, head(sent)), sent
		}
	}
	if len(u.Order) == 0 || u.Order[len(u.Order)-1] != 0x8E {
		return fmt.Sprintf("data object order %x", u.Order), sent
	}
	// the response must be delivered unchanged
	if err != nil {
		return "genuine protected response rejected: " + err.Error(), sent
	}
	if out == nil || out.Status != e.RSW || !bytes.Equal(out.Data, rdata) {
		return fmt.Sprintf("response delivered as %04x/%s, chip sent %04x/%s", out.Status, head(out.Data), e.RSW, head(rdata)), sent
	}
	// what earlier exchanges handed to the caller is the caller's: this exchange must not have changed it
	for _, k := range w.kept {
		if !bytes.Equal(k.got, k.want) {
			return fmt.Sprintf("the response data returned by exchange %d of this session (%s) was changed by a later exchange (now %s): the result aliases state of the session",
				k.n, head(k.want), head(k.got)), sent
		}
	}
	if len(out.Data) > 0 && len(w.kept) < 64 {
		w.kept = append(w.kept, keptResult{w.lk.sent, out.Data, bytes.Clone(rdata)})
	}
	if w.nfc.SM() == nil {
		return fmt.Sprintf("after a genuine protected response with status %04x the session has no secure messaging any more: the next command would leave unprotected", e.RSW), sent
	}
	if !bytes.Equal(w.nfc.SM().SSC(), w.chip.SSC) {
		return fmt.Sprintf("counter after the exchange is %x, the chip has %x", w.nfc.SM().SSC(), w.chip.SSC), sent
	}
	if want := sm.SSCPlus(unhex(e.SSC), 2); !bytes.Equal(w.chip.SSC, want) {
		return fmt.Sprintf("counter advanced from %s to %x, expected %x", e.SSC, w.chip.SSC, want), sent
	}
	return "", sent
}

// checkExchange replays one exchange on a fresh session (regressions, replay).
func checkExchange(e exch, skipLe bool) string {
	w, err := newWorld(mac.Cipher(e.Alg), unhex(e.KEnc), unhex(e.KMac), unhex(e.SSC))
	if err != nil {
		return "cannot build session: " + err.Error()
	}
	msg, _ := w.exchange(e, skipLe)
	if msg != "" {
		return msg
	}
	// the following exchange still authenticates
	follow := e
	follow.SSC, follow.INS, follow.P1, follow.P2, follow.Data, follow.Ne, follow.RData, follow.RSW = hex.EncodeToString(w.nfc.SM().SSC()), 0xB0, 0, 0, "", 1, "5a", 0x9000
	if msg, _ := w.exchange(follow, false); msg != "" {
		return "following exchange: " + msg
	}
	return ""
}

// ---------------------------------------------------------------- generators

func boundaryLens(c mac.Cipher) []int {
	set := map[int]bool{}
	for _, n := range []int{1, 2, 7, 8, 9, 15, 16, 17, 31, 32, 33, 254, 255, 256, 257, 65279, 65280, 65281} {
		set[n] = true
	}
	// lengths at which the PROTECTED data field crosses 127/128, 255/256, 65279/65280
	for _, ne := range []int{0, 1, 65536} {
		prev := protectedLen(c, 1, ne)
		for n := 2; n <= 65535; n++ {
			cur := protectedLen(c, n, ne)
			if cur > 65535 {
				break
			}
			for _, th := range []int{128, 256, 65280} {
				if prev < th && cur >= th {
					set[n-1], set[n] = true, true
				}
			}
			prev = cur
		}
		m := maxData(c, ne)
		set[m], set[m-1] = true, true
	}
	var out []int
	for n := 1; n <= 65535; n++ { // ordered, deterministic
		if set[n] {
			out = append(out, n)
		}
	}
	return out
}

var boundaryCache = map[mac.Cipher][]int{}

func init() {
	for _, c := range mac.Ciphers {
		boundaryCache[c] = boundaryLens(c)
	}
}

var neGen = rapid.OneOf(
	rapid.SampledFrom([]int{1, 255, 256, 257, 65535, 65536}),
	rapid.SampledFrom([]int{1, 4, 8, 223, 224, 231, 255, 256}),
	rapid.IntRange(1, 256),
	rapid.IntRange(1, 65536),
)

var swGen = rapid.OneOf(
	rapid.Just(uint16(0x9000)),
	rapid.SampledFrom([]uint16{0x6982, 0x6A82, 0x6A86, 0x6282, 0x6283, 0x6300, 0x6700, 0x6B00, 0x6C10, 0x6100, 0x6988, 0x6F00, 0x6A80}),
	rapid.Uint16(),
)

func isBoundary(c mac.Cipher, n int) bool {
	for _, b := range boundaryCache[c] {
		if b == n {
			return true
		}
	}
	return false
}

func drawBytes(rt *rapid.T, n int, label string) []byte {
	if n == 0 {
		return nil
	}
	if n > 512 { // long fields: drawn seed, expanded deterministically (keeps the rapid bit stream small)
		seed := rapid.SliceOfN(rapid.Byte(), 8, 8).Draw(rt, label+"-seed")
		out := make([]byte, n)
		x := uint32(seed[0]) | uint32(seed[1])<<8 | uint32(seed[2])<<16 | uint32(seed[3])<<24 | 1
		for i := range out {
			x = x*1664525 + 1013904223
			out[i] = byte(x >> 24)
		}
		copy(out[n-4:], seed[4:]) // tail under generator control (padding look-alikes)
		return out
	}
	d := rapid.SliceOfN(rapid.Byte(), n, n).Draw(rt, label)
	switch rapid.IntRange(0, 5).Draw(rt, label+"-tail") {
	case 0:
		d[n-1] = 0x80
	case 1:
		d[n-1] = 0
		if n > 1 {
			d[n-2] = 0x80
		}
	}
	return d
}

type shape struct {
	ins    byte
	nc, ne int
}

func drawShape(rt *rapid.T, c mac.Cipher, label string, f15open bool) shape {
	var s shape
	s.ins = rapid.OneOf(rapid.SampledFrom([]byte{0xB0, 0xB1, 0xA4, 0x22, 0x86, 0x88, 0x84, 0x82, 0x2A, 0xCB}), rapid.Byte()).Draw(rt, label+"-ins")
	kase := rapid.IntRange(1, 4).Draw(rt, label+"-case")
	if kase == 2 || kase == 4 {
		s.ne = neGen.Draw(rt, label+"-ne")
	}
	if kase == 3 || kase == 4 {
		switch rapid.IntRange(0, 9).Draw(rt, label+"-nc-kind") {
		case 0, 1, 2:
			s.nc = rapid.SampledFrom(boundaryCache[c]).Draw(rt, label+"-nc-b")
		case 3:
			s.nc = rapid.IntRange(1, 65535).Draw(rt, label+"-nc-any")
		case 4:
			s.nc = rapid.IntRange(200, 300).Draw(rt, label+"-nc-mid")
		default:
			s.nc = rapid.IntRange(1, 64).Draw(rt, label+"-nc-small")
		}
		if m := maxData(c, s.ne); s.nc > m {
			s.nc = m - (s.nc % 3) // fold into the domain, biased to the upper boundary
		}
	}
	return s
}

func classOf(nc, ne int) string {
	switch {
	case nc == 0 && ne == 0:
		return "case1"
	case nc == 0 && ne <= 256:
		return "case2S"
	case nc == 0:
		return "case2E"
	case ne == 0 && nc <= 255:
		return "case3S"
	case ne == 0:
		return "case3E"
	case nc <= 255 && ne <= 256:
		return "case4S"
	}
	return "case4E"
}

// ---------------------------------------------------------------- the property

func TestHistories(t *testing.T) {
	f15open := evid.Open(prop, f15)
	evid.RapidCheck(t, 2000, 100000, func(rt *rapid.T) {
		c := rapid.SampledFrom(mac.Ciphers).Draw(rt, "cipher")
		kenc := rapid.SliceOfN(rapid.Byte(), c.KeyLen(), c.KeyLen()).Draw(rt, "kenc")
		kmac := rapid.SliceOfN(rapid.Byte(), c.KeyLen(), c.KeyLen()).Draw(rt, "kmac")
		ssc := drawSSC(rt, c.BlockLen())
		w, err := newWorld(c, kenc, kmac, ssc)
		if err != nil {
			evid.Infra(rt, "session: %v", err)
		}
		n := rapid.OneOf(rapid.IntRange(1, 8), rapid.IntRange(1, 60)).Draw(rt, "history-length")
		sig := fnv.New64a()
		fmt.Fprintf(sig, "%s|", c)
		hasErrSW, hasBoundary, wraps := false, false, false
		done := 0
		var hist []string
		ssc0 := hex.EncodeToString(ssc)
		for i := 0; i < n; i++ {
			label := fmt.Sprintf("s%d", i)
			s := drawShape(rt, c, label, f15open)
			p1, p2 := rapid.Byte().Draw(rt, label+"-p1"), rapid.Byte().Draw(rt, label+"-p2")
			data := drawBytes(rt, s.nc, label+"-data")
			rsw := swGen.Draw(rt, label+"-sw")
			rlen := 0
			if s.ne > 0 && rapid.IntRange(0, 3).Draw(rt, label+"-rkind") > 0 {
				rlen = rapid.OneOf(rapid.Just(s.ne), rapid.IntRange(1, min(s.ne, 300)), rapid.IntRange(1, s.ne)).Draw(rt, label+"-rlen")
			}
			// a protected response must itself fit an extended response APDU
			if lim := 65536 - 32; rlen > lim {
				rlen = lim
			}
			rdata := drawBytes(rt, rlen, label+"-rdata")
			e := w.state(s.ins, p1, p2, data, s.ne, rdata, rsw)
			// the plain command's class: normally 00; command chaining (10), an already
			// SM-marked class and proprietary classes must still leave as class 0C with a
			// MAC over the header as sent (the chip model verifies exactly that)
			if rapid.IntRange(0, 3).Draw(rt, label+"-cla-kind") == 0 {
				e.CLA = rapid.SampledFrom([]byte{0x10, 0x0C, 0x1C, 0x04, 0x80, 0x90, 0xFF}).Draw(rt, label+"-cla")
				evid.Count(fmt.Sprintf("cmd-plain-class-%02x", e.CLA), 1)
			}
			skipLe := false
			if inF15(c, s.nc, s.ne) {
				if f15open {
					evid.Excluded(f15) // only the Le' comparison is suppressed for this command
					skipLe = true
				}
				evid.Count("cmd-short-to-extended-by-sm", 1)
			}
			sscBefore := unhex(e.SSC)
			msg, sent := w.exchange(e, skipLe)
			if msg != "" {
				e.Sent = head(sent)
				evid.Fail(rt, "history", e, "step %d of %d (%s nc=%d ne=%d): %s", i, n, classOf(s.nc, s.ne), s.nc, s.ne, msg)
			}
			done++
			cl := classOf(s.nc, s.ne)
			evid.Count("cmd-"+cl, 1)
			if s.ins&1 == 1 && s.nc > 0 {
				evid.Count("cmd-odd-ins-do85", 1)
			}
			b := isBoundary(c, s.nc) || s.ne == 1 || s.ne >= 255 && s.ne <= 257 || s.ne >= 65535
			hasBoundary = hasBoundary || b
			hasErrSW = hasErrSW || rsw != 0x9000
			if bytes.Compare(w.chip.SSC, sscBefore) < 0 {
				wraps = true
			}
			fmt.Fprintf(sig, "%s/%d/%d/%v/%d;", cl, lenClass(s.nc), lenClass(s.ne), rsw == 0x9000, lenClass(rlen))
			if len(hist) < 60 {
				hist = append(hist, fmt.Sprintf("%s ins=%02x p1p2=%02x%02x nc=%d ne=%d -> rlen=%d sw=%04x", cl, s.ins, p1, p2, s.nc, s.ne, rlen, rsw))
			}
		}
		// the exchange after the last one still authenticates on both sides
		last := w.state(0xB0, 0, 0, nil, 1, []byte{0x5A}, 0x9000)
		if msg, _ := w.exchange(last, false); msg != "" {
			evid.Fail(rt, "history-final", last, "exchange after the history: %s", msg)
		}
		if wraps {
			evid.Count("history-with-ssc-wrap", 1)
		}
		// informative only: a naked status at the very end
		if rapid.IntRange(0, 3).Draw(rt, "naked-end") == 0 {
			w.nakedInformative(rt)
		}
		class := fmt.Sprintf("%s-len%s", c, map[bool]string{true: "1-2", false: "3+"}[done < 3])
		evid.CaseFn(class, done >= 3 && (hasErrSW || hasBoundary), fmt.Sprintf("%x", sig.Sum64()), func() any {
			return map[string]any{"alg": string(c), "kenc": hex.EncodeToString(kenc), "kmac": hex.EncodeToString(kmac), "initial_ssc": ssc0,
				"history": hist, "ssc_wrapped": wraps}
		})
	})
}

func lenClass(n int) int {
	switch {
	case n == 0:
		return 0
	case n <= 16:
		return 1
	case n <= 255:
		return 2
	case n == 256:
		return 3
	case n <= 65279:
		return 4
	}
	return 5
}

func drawSSC(rt *rapid.T, n int) []byte {
	switch rapid.IntRange(0, 3).Draw(rt, "ssc-kind") {
	case 0: // about to wrap: within a history's reach of all-ones
		s := bytes.Repeat([]byte{0xFF}, n)
		s[n-1] = byte(0xFF - rapid.IntRange(0, 40).Draw(rt, "ssc-to-wrap"))
		return s
	case 1: // carry chain
		s := rapid.SliceOfN(rapid.Byte(), n, n).Draw(rt, "ssc")
		k := rapid.IntRange(1, n-1).Draw(rt, "ssc-carry")
		for i := n - k; i < n; i++ {
			s[i] = 0xFF
		}
		s[n-1] = byte(0xFF - rapid.IntRange(0, 6).Draw(rt, "ssc-low"))
		return s
	case 2:
		return make([]byte, n)
	}
	return rapid.SliceOfN(rapid.Byte(), n, n).Draw(rt, "ssc")
}

// nakedInformative records what the library's sscDecrement does with an
// unprotected status.  It cannot fail the check (DESIGN C10; C03 owns the
// requirement that such a response yields an error).
func (w *world) nakedInformative(rt *rapid.T) {
	chipProcessed := rapid.Bool().Draw(rt, "naked-chip-processed")
	sw := swGen.Draw(rt, "naked-sw")
	w.lk.hook = func(capdu []byte) []byte {
		if chipProcessed {
			w.chip.UnwrapCommand(capdu) // chip consumed the command counter, then answers in the clear
		}
		return []byte{byte(sw >> 8), byte(sw)}
	}
	_, err := w.nfc.DoAPDU(iso7816.NewCApdu(0, 0xB0, 0, 0, nil, 4), "naked")
	if err == nil {
		evid.Count("info-naked-status-accepted", 1)
	}
	inSync := bytes.Equal(w.nfc.SM().SSC(), w.chip.SSC)
	switch {
	case !chipProcessed && inSync:
		evid.Count("info-naked-unprocessed-counters-realigned", 1)
	case !chipProcessed:
		evid.Count("info-naked-unprocessed-counters-diverged", 1)
	case inSync:
		evid.Count("info-naked-processed-counters-equal", 1)
	default:
		evid.Count("info-naked-processed-counters-diverged", 1)
	}
}

// ---------------------------------------------------------------- deterministic parts

func fixedKeys(c mac.Cipher) (kenc, kmac []byte) {
	kenc, kmac = make([]byte, c.KeyLen()), make([]byte, c.KeyLen())
	for i := range kenc {
		kenc[i], kmac[i] = byte(0x11*i+3), byte(0xA7-5*i)
	}
	return
}

func pattern(n int, fill byte) []byte {
	d := make([]byte, n)
	for i := range d {
		d[i] = fill + byte(i*13)
	}
	return d
}

// TestBoundaryGrid: every boundary data length x every boundary Le x four
// suites x odd/even INS, one exchange each on a fresh session whose counter is
// one step from wrapping.
func TestBoundaryGrid(t *testing.T) {
	f15open := evid.Open(prop, f15)
	idx := 0
	complete := true
	for _, c := range mac.Ciphers {
		kenc, kmac := fixedKeys(c)
		lens := append([]int{0}, boundaryCache[c]...)
		for _, nc := range lens {
			for _, ne := range []int{0, 1, 255, 256, 257, 65535, 65536} {
				for _, ins := range []byte{0xB0, 0xB1} {
					idx++
					if !evid.MineIdx(idx) {
						continue
					}
					if nc > maxData(c, ne) {
						continue
					}
					if nc > 1024 && ins == 0xB1 && ne != 0 && ne != 65536 {
						continue // keep the number of 64 KiB encryptions in bounds
					}
					ssc := bytes.Repeat([]byte{0xFF}, c.BlockLen())
					ssc[len(ssc)-1] = 0xFE // command under ff..ff, response under 00..00
					e := exch{Alg: string(c), KEnc: hex.EncodeToString(kenc), KMac: hex.EncodeToString(kmac), SSC: hex.EncodeToString(ssc),
						INS: ins, P1: byte(idx), P2: byte(idx >> 8), Data: hex.EncodeToString(pattern(nc, byte(idx))), Ne: ne,
						RData: hex.EncodeToString(pattern(min(ne, 40), 0x80)), RSW: []uint16{0x9000, 0x6282, 0x6A82}[idx%3]}
					skipLe := false
					if inF15(c, nc, ne) && f15open {
						evid.Excluded(f15)
						skipLe = true
					}
					evid.Case("grid-"+classOf(nc, ne), true, fmt.Sprintf("%s|%d|%d|%02x", c, nc, ne, ins), nil)
					if msg := checkExchange(e, skipLe); msg != "" {
						complete = false
						e.Data = fmt.Sprintf("pattern(%d,%d)", nc, byte(idx))
						evid.Fail(t, "boundary-grid", gridRepro(e, nc, byte(idx)), "%s nc=%d ne=%d ins=%02x: %s", c, nc, ne, ins, msg)
					}
				}
			}
		}
	}
	evid.Exhaustive("boundary-grid", complete)
}

func gridRepro(e exch, nc int, fill byte) map[string]any {
	return map[string]any{"alg": e.Alg, "kenc": e.KEnc, "kmac": e.KMac, "ssc_before": e.SSC, "ins": e.INS, "p1": e.P1, "p2": e.P2,
		"pattern_nc": nc, "pattern_fill": fill, "ne": e.Ne, "rdata": e.RData, "rsw": e.RSW}
}

// TestICAOExample: the D.4 worked example through DoAPDU (known answers).
func TestICAOExample(t *testing.T) {
	if evid.Shard() != 0 {
		return
	}
	w, err := newWorld(mac.TDES, unhex("979EC13B1CBFE9DCD01AB0FED307EAE5"), unhex("F1CB1F1FB5ADF208806B89DC579DC1F8"), unhex("887022120C06C226"))
	if err != nil {
		evid.Infra(t, "%v", err)
	}
	steps := []struct {
		e    exch
		want string
	}{
		{w.state(0xA4, 0x02, 0x0C, unhex("011E"), 0, nil, 0x9000), "0CA4020C158709016375432908C044F68E08BF8B92D635FF24F800"},
		{exch{INS: 0xB0, Ne: 4, RData: "60145f01", RSW: 0x9000}, "0CB000000D9701048E08ED6705417E96BA5500"},
		{exch{INS: 0xB0, P2: 4, Ne: 0x12, RData: "04303130365f36063034303030305c026175", RSW: 0x9000}, "0CB000040D9701128E082EA28A70F3C7B53500"},
	}
	for i, st := range steps {
		e := st.e
		s := w.state(e.INS, e.P1, e.P2, unhex(e.Data), e.Ne, unhex(e.RData), e.RSW)
		msg, sent := w.exchange(s, false)
		evid.Case("icao-example", true, fmt.Sprint(i), nil)
		if msg != "" {
			evid.Fail(t, "icao-example", s, "step %d: %s", i, msg)
		}
		if !bytes.Equal(sent, unhex(st.want)) {
			evid.Fail(t, "icao-example", s, "step %d: sent %x, ICAO 9303-11 D.4 has %s", i, sent, st.want)
		}
	}
}

// TestInfoStrictDO85 is informative only.  ISO/IEC 7816-4 defines DO'85' as a
// plain cryptogram WITHOUT padding-content indicator (only DO'87' has one);
// the property statement and the library put the indicator 01 into both.  The
// library itself never sends odd-INS commands with data.  This records what a
// strictly conforming card would make of the library's DO'85'.
func TestInfoStrictDO85(t *testing.T) {
	if evid.Shard() != 0 {
		return
	}
	for _, c := range mac.Ciphers {
		kenc, kmac := fixedKeys(c)
		w, err := newWorld(c, kenc, kmac, make([]byte, c.BlockLen()))
		if err != nil {
			evid.Infra(t, "%v", err)
		}
		w.chip.DO85NoIndicator = true
		rejected := false
		w.lk.hook = func(capdu []byte) []byte {
			u, err := w.chip.UnwrapCommand(capdu)
			rejected = err != nil || !bytes.Equal(u.Data, []byte{0x54, 0x02, 0x00, 0x00})
			return []byte{0x69, 0x88}
		}
		w.nfc.DoAPDU(iso7816.NewCApdu(0, 0xB1, 0, 0, []byte{0x54, 0x02, 0x00, 0x00}, 256), "odd INS")
		if rejected {
			evid.Count("info-strict-iso-do85-card-rejects-library-do85", 1)
		} else {
			evid.Count("info-strict-iso-do85-card-accepts-library-do85", 1)
		}
	}
}

// f15Probe is the minimal instance of F15.
func f15Probe() (exch, string) {
	c := mac.TDES
	kenc, kmac := fixedKeys(c)
	e := exch{Alg: string(c), KEnc: hex.EncodeToString(kenc), KMac: hex.EncodeToString(kmac), SSC: "0000000000000000",
		INS: 0x86, Data: hex.EncodeToString(pattern(232, 1)), Ne: 256, RData: hex.EncodeToString(pattern(256, 7)), RSW: 0x9000}
	return e, checkExchange(e, false)
}

// TestFindingF15: probe while open, regression test once fixed.
func TestFindingF15(t *testing.T) {
	if evid.Shard() != 0 {
		return
	}
	e, msg := f15Probe()
	if evid.Open(prop, f15) {
		if msg != "" {
			evid.ReportKnown(prop, f15, "SecureMessaging.Encode: a short command (Nc<=255, Ne<=256) whose protected data field exceeds 255 bytes is sent in extended form with Le'=0100 instead of 0000 (e.g. 232 data bytes, Ne=256, 3DES): "+msg)
		}
		return
	}
	if msg != "" {
		evid.Fail(t, "regression-F15", e, "%s", msg)
	}
}

// TestRegressionF1 (fixed in /repo 6cb7b6f): extended Lc with high octet
// computed modulo 255 — protected data fields of 65280..65535 bytes.
func TestRegressionF1(t *testing.T) {
	if evid.Shard() != 0 {
		return
	}
	for _, c := range []mac.Cipher{mac.TDES, mac.AES128} {
		kenc, kmac := fixedKeys(c)
		for _, ne := range []int{0, 65536} {
			for nc := 65200; nc <= maxData(c, ne); nc++ {
				if pl := protectedLen(c, nc, ne); pl < 65280 || nc%c.BlockLen() > 1 && nc != maxData(c, ne) {
					continue
				}
				e := exch{Alg: string(c), KEnc: hex.EncodeToString(kenc), KMac: hex.EncodeToString(kmac), SSC: hex.EncodeToString(make([]byte, c.BlockLen())),
					INS: 0x2A, Data: hex.EncodeToString(pattern(nc, 9)), Ne: ne, RData: "", RSW: 0x9000}
				evid.Case("regression-F1", true, fmt.Sprintf("%s|%d|%d", c, nc, ne), nil)
				if msg := checkExchange(e, false); msg != "" {
					evid.Fail(t, "regression-F1", gridRepro(e, nc, 9), "%s nc=%d ne=%d (Lc'=%d): %s", c, nc, ne, protectedLen(c, nc, ne), msg)
				}
			}
		}
	}
}

// TestReplayJSON re-executes a saved JSON repro (./verif replay C10 <file>).
func TestReplayJSON(t *testing.T) {
	path := os.Getenv("VERIF_REPLAY_JSON")
	if path == "" {
		return
	}
	b, err := os.ReadFile(path)
	if err != nil {
		t.Fatalf("read: %v", err)
	}
	var doc struct {
		Check string `json:"check"`
		Case  struct {
			exch
			PatternNc   int  `json:"pattern_nc"`
			PatternFill byte `json:"pattern_fill"`
		} `json:"case"`
	}
	if err := json.Unmarshal(b, &doc); err != nil {
		t.Fatalf("parse: %v", err)
	}
	e := doc.Case.exch
	if e.Alg == "" {
		t.Fatalf("repro of check %q carries no exchange", doc.Check)
	}
	if doc.Case.PatternNc > 0 {
		e.Data = hex.EncodeToString(pattern(doc.Case.PatternNc, doc.Case.PatternFill))
	}
	e.Sent = ""
	if msg := checkExchange(e, false); msg != "" {
		t.Fatalf("VIOLATION reproduced: %s", msg)
	}
}
