package c10

// Coverage-guided variants of this package's rapid properties (thorough tier): the
// native fuzzer mutates rapid's bit stream with coverage feedback (evid.FuzzVia).

import (
	"testing"

	"verifharness/evid"
)

func FuzzHistories(f *testing.F) { evid.FuzzVia(f, TestHistories) }
