// C08 — An end-to-end read returns the chip's files and correct step outcomes.
//
// reader.ReadDocument runs against fully personalised conforming chips
// (persona = ldsgen files + issuer PKI + chipsim) over the generated
// configuration space; the oracle compares every returned file with the chip's
// file, checks completeness against the security object's list, the outcome of
// every step, and the chip-side transcript.
package c08

import (
	"encoding/hex"
	"fmt"
	"testing"

	"pgregory.net/rapid"

	"verifharness/chipsim"
	"verifharness/evid"
	"verifharness/persona"
	"verifharness/readcheck"
	"verifharness/ref/mac"
)

const prop = "C08"

func TestMain(m *testing.M) { evid.Main(m, prop) }

type readCase struct {
	O  persona.Opts
	R  readcheck.ReadOpts
	Sz string
}

func (c *readCase) repro() map[string]any {
	o := c.O
	return map[string]any{
		"seed": hex.EncodeToString(o.Seed), "country": o.Country, "layout": o.Layout, "access": o.Access, "paceId": o.PaceID, "paceCipher": string(o.PaceCipher),
		"dgs": o.DGs, "extraDGs": o.ExtraDGs, "aa": o.AA, "aaBits": o.AARSABits, "aaTrailer": o.AATrailer, "aaCurve": o.AACurve, "aaDER": o.AADER,
		"ca": o.CA, "caCurve": o.CACurve, "caCipher": string(o.CACipher), "caKeyId": o.CAKeyID, "caExplicit": o.CAExplicit, "caInferred": o.CAInferred,
		"trusted": o.Trusted, "rsaIssuer": o.RSAIssuer, "dg13Size": o.DG13Size, "maxImage": o.MaxImage,
		"extended": o.Extended, "readCap": o.ReadCap, "leReject": o.LeReject, "chunkMod": o.ChunkMod,
		"maxLe": c.R.MaxLe, "skipImages": c.R.SkipImages, "pwKind": c.R.PwKind, "libSeed": hex.EncodeToString(c.R.LibSeed),
	}
}

func (c *readCase) key() string {
	o := c.O
	return fmt.Sprintf("%s/%d/%s/%v/%v/%s%d%s/%v%s%s/%v/%d/%v/%d/%d/%d/%d/%x", o.Access, o.PaceID, o.PaceCipher, o.DGs, o.ExtraDGs, o.AA, o.AARSABits, o.AACurve,
		o.CA, o.CACurve, o.CACipher, o.Trusted, o.DG13Size, o.Extended, o.ReadCap, o.LeReject, o.ChunkMod, c.R.MaxLe, o.Seed[:4])
}

var sizeBoundaries = []int{2, 3, 4, 5, 6, 127, 128, 129, 130, 131, 255, 256, 257, 258, 259, 260, 261, 511, 512, 513, 1000, 4096}

func drawCase(rt *rapid.T) *readCase {
	c := &readCase{}
	o := &c.O
	o.Seed = rapid.SliceOfN(rapid.Byte(), 8, 8).Draw(rt, "seed")
	o.Country = rapid.SampledFrom([]string{"DE", "FR", "NL", "GB", "US", "JP", "NZ", "CH"}).Draw(rt, "country")
	o.Layout = rapid.SampledFrom([]string{"TD3", "TD3", "TD1", "TD2"}).Draw(rt, "layout")
	o.Access = rapid.SampledFrom([]string{"BAC", "PACE+BAC", "PACE", "PACE-CAM", "BAC", "PACE+BAC", "PACE", "PACE-CAM", "BAC+PACE-UNSUPPORTED"}).Draw(rt, "access")
	o.PaceID = rapid.SampledFrom([]int{12, 12, 10, 13, 15, 8, 9, 11, 14, 16, 17, 18}).Draw(rt, "paceId")
	o.PaceCipher = rapid.SampledFrom([]mac.Cipher{"3DES", "AES-128", "AES-192", "AES-256"}).Draw(rt, "paceCipher")
	for _, dg := range []int{2, 7, 11, 12, 13, 16} {
		if rapid.Bool().Draw(rt, fmt.Sprintf("dg%d", dg)) {
			o.DGs = append(o.DGs, dg)
		}
	}
	if rapid.IntRange(0, 3).Draw(rt, "extra") == 0 {
		o.ExtraDGs = []int{3}
		if rapid.Bool().Draw(rt, "extra4") {
			o.ExtraDGs = append(o.ExtraDGs, 4)
		}
	}
	o.AA = rapid.SampledFrom([]string{"", "", "RSA", "ECDSA"}).Draw(rt, "aa")
	o.AARSABits = rapid.SampledFrom([]int{1024, 1028, 1280, 1536}).Draw(rt, "aaBits")
	o.AATrailer = rapid.SampledFrom([]int{0xBC, 0x34CC, 0x38CC, 0x36CC, 0x35CC}).Draw(rt, "aaTrailer")
	o.AACurve = rapid.SampledFrom([]string{"P-256", "P-224", "P-384", "brainpoolP256r1", "P-521", "brainpoolP384r1", "P-256", "P-192", "brainpoolP320r1", "brainpoolP512r1"}).Draw(rt, "aaCurve")
	o.AADER = rapid.Bool().Draw(rt, "aaDER")
	o.CA = rapid.IntRange(0, 2).Draw(rt, "ca") > 0
	o.CACurve = rapid.SampledFrom([]string{"P-256", "P-224", "P-384", "brainpoolP256r1", "brainpoolP320r1", "P-192", "P-256", "P-224", "P-521", "P-521",
		"brainpoolP192r1", "brainpoolP224r1", "brainpoolP384r1", "brainpoolP512r1"}).Draw(rt, "caCurve")
	o.CACipher = rapid.SampledFrom([]mac.Cipher{"3DES", "AES-128", "AES-192", "AES-256"}).Draw(rt, "caCipher")
	o.CAKeyID = rapid.Bool().Draw(rt, "caKeyId")
	o.CAExplicit = rapid.Bool().Draw(rt, "caExplicit")
	o.CAInferred = rapid.IntRange(0, 5).Draw(rt, "caInferred") == 0
	o.Trusted = rapid.IntRange(0, 3).Draw(rt, "trusted") != 0
	o.RSAIssuer = rapid.IntRange(0, 3).Draw(rt, "rsaIssuer") == 0

	// transport: a configuration the chip tolerates
	o.Extended = rapid.Bool().Draw(rt, "extended")
	if o.Extended {
		c.R.MaxLe = rapid.OneOf(rapid.SampledFrom([]int{1, 2, 3, 5, 16, 64, 128, 223, 255, 256, 257, 512, 1000, 4096, 32767, 32768, 65535, 65536}), rapid.IntRange(1, 65536)).Draw(rt, "maxLe")
		o.ReadCap = rapid.SampledFrom([]int{0, 0, 4, 7, 100, 231, 256, 1000}).Draw(rt, "readCap")
		o.LeReject = rapid.SampledFrom([]int{0, 0, 0, 128, 192, 255, 256, 1000, 65535}).Draw(rt, "leReject")
	} else {
		c.R.MaxLe = rapid.OneOf(rapid.SampledFrom([]int{1, 2, 3, 5, 16, 64, 128, 223, 255, 256}), rapid.IntRange(1, 256)).Draw(rt, "maxLeShort")
		o.ReadCap = rapid.SampledFrom([]int{223, 200, 100, 16, 4}).Draw(rt, "readCapShort")
		o.LeReject = rapid.SampledFrom([]int{0, 0, 128, 192, 255}).Draw(rt, "leRejectShort")
	}
	// the library's fallback ladder (256, 192, 128) must contain a value the chip accepts
	if o.LeReject > 0 && o.LeReject < 128 {
		o.LeReject = 128
	}
	if rapid.IntRange(0, 2).Draw(rt, "chunk") == 0 {
		o.ChunkMod = rapid.IntRange(1, 97).Draw(rt, "chunkMod")
	}
	// effective bytes per read bound the file sizes (the reader allows 1000 reads per file)
	eff := c.R.MaxLe
	if o.ReadCap > 0 && o.ReadCap < eff {
		eff = o.ReadCap
	}
	maxFile := 900 * eff
	if o.ChunkMod > 0 {
		maxFile = 100 * eff // variable chunks average half, stay far from the limit
		if eff < 8 {
			o.ChunkMod = 0
			maxFile = 900 * eff
		}
	}
	c.Sz = "small"
	switch {
	case maxFile < 700:
		// tiny reads: only small files fit into 1000 chunks
		o.DGs, o.ExtraDGs, o.AA, o.CA = nil, nil, "", false
		o.RSAIssuer = false
		if o.Access == "PACE-CAM" {
			o.Access = "PACE"
		}
		c.Sz = "tiny-reads"
		if maxFile < 400 {
			// even EF.SOD (~350 bytes with a P-256 signer) would not fit
			o.ReadCap = 0
			c.R.MaxLe = max(c.R.MaxLe, 2)
			o.ChunkMod = 0
		}
	case maxFile < 6000:
		o.MaxImage = 300
		keep := o.DGs[:0]
		for _, d := range o.DGs {
			if d == 11 || d == 13 {
				keep = append(keep, d)
			}
		}
		o.DGs = keep
		if o.RSAIssuer && maxFile < 3000 {
			o.RSAIssuer = false
		}
		c.Sz = "medium-reads"
	default:
		switch rapid.IntRange(0, 3).Draw(rt, "big") {
		case 0:
			o.MaxImage = rapid.SampledFrom([]int{20000, 30000}).Draw(rt, "maxImage")
			c.Sz = "large-image"
		default:
			o.MaxImage = 2000
		}
		if o.MaxImage > maxFile/3 {
			o.MaxImage = maxFile / 3
		}
	}
	if has(o.DGs, 13) {
		o.DG13Size = rapid.SampledFrom(sizeBoundaries).Draw(rt, "dg13Size")
		// chunk multiples +-1
		if rapid.Bool().Draw(rt, "dg13chunk") && eff >= 2 && eff <= 2000 {
			o.DG13Size = 4 + eff*rapid.IntRange(1, 3).Draw(rt, "k") + rapid.IntRange(-1, 1).Draw(rt, "d")
		}
		if o.DG13Size > maxFile {
			o.DG13Size = maxFile
		}
		if o.DG13Size < 5 && evid.Open("C13", "F3-four-byte-file-not-found") {
			// known finding F3 (files shorter than 5 bytes are not read correctly)
			evid.Excluded("F3-four-byte-file-not-found")
			o.DG13Size = 5
		}
	}
	// files of 32 KiB .. 64 KiB that a large read size can still fetch with every chunk starting below
	// offset 32768 (READ BINARY with an even INS addresses 15 bits)
	if o.Extended && rapid.IntRange(0, 9).Draw(rt, "largeReadable") == 0 {
		c.R.MaxLe = rapid.SampledFrom([]int{32768, 33000, 40000, 65535, 65536}).Draw(rt, "maxLeLarge")
		o.ReadCap, o.LeReject, o.ChunkMod = 0, 0, 0
		if !has(o.DGs, 13) {
			o.DGs = append(o.DGs, 13)
		}
		o.DG13Size = rapid.OneOf(rapid.SampledFrom([]int{32767, 32768, 32769, 32771, 32772, 32773, 40000, 65535, 65536, 65538, 65539}), rapid.IntRange(32768, 65539)).Draw(rt, "dg13Large")
		if o.MaxImage > 2000 {
			o.MaxImage = 2000
		}
		c.Sz = "large-readable"
	}
	if !o.Extended && o.AA == "RSA" && o.AARSABits > 1536 {
		o.AARSABits = 1536
	}
	c.R.SkipImages = rapid.IntRange(0, 4).Draw(rt, "skipImages") == 0
	c.R.PwKind = rapid.IntRange(0, 2).Draw(rt, "pwKind")
	if (o.Access == "BAC" || o.Access == "BAC+PACE-UNSUPPORTED") && c.R.PwKind == 2 {
		c.R.PwKind = 0 // BAC needs the MRZ
	}
	c.R.LibSeed = rapid.SliceOfN(rapid.Byte(), 8, 8).Draw(rt, "libSeed")
	return c
}

// nextOffsetNeeded derives from the chip's transcript the offset at which the
// next READ BINARY of the file selected last would have had to start (the end
// of the furthest chunk the chip delivered), and that file's identifier.
func nextOffsetNeeded(chip *chipsim.Chip) (next int, fid int) {
	for _, ex := range chip.Transcript {
		if ex.Plain == nil {
			continue
		}
		switch ex.Plain.INS {
		case 0xA4:
			if ex.SW == 0x9000 && len(ex.Plain.Data) == 2 {
				next, fid = 0, int(ex.Plain.Data[0])<<8|int(ex.Plain.Data[1])
			}
		case 0xB0:
			if ex.Plain.P1&0x80 == 0 && len(ex.PlainRsp) > 0 {
				if end := (int(ex.Plain.P1)<<8 | int(ex.Plain.P2)) + len(ex.PlainRsp); end > next {
					next = end
				}
			}
		}
	}
	return next, fid
}

func has(v []int, x int) bool {
	for _, e := range v {
		if e == x {
			return true
		}
	}
	return false
}

func check(t interface {
	Fatalf(string, ...any)
	Helper()
	Logf(string, ...any)
}, c *readCase, name string) {
	p, err := persona.Build(c.O)
	if err != nil {
		evid.Infra(t, "persona.Build: %v (%v)", err, c.repro())
	}
	// the reader allows 1000 reads per file: make sure the generated transport
	// configuration can carry the largest file (the security object alone is 1-3 KB)
	largest := 0
	for _, b := range p.Files {
		largest = max(largest, len(b))
		if len(b) < 5 && evid.Open("C13", "F3-four-byte-file-not-found") {
			evid.Excluded("F3-four-byte-file-not-found") // a generated file of < 5 bytes (e.g. DG12 with an empty tag list)
			return
		}
	}
	eff := c.R.MaxLe
	if eff == 0 {
		eff = 256
	}
	if c.O.ReadCap > 0 && c.O.ReadCap < eff {
		eff = c.O.ReadCap
	}
	div := 900
	if c.O.ChunkMod > 0 {
		div = 100
		if !c.O.Extended && (largest+div-1)/div > 223 {
			// a short-APDU chip cannot be asked for more than 256 bytes: use regular chunks
			c.O.ChunkMod, p.Cfg.ChunkFn, div = 0, nil, 900
		}
	}
	if need := (largest + div - 1) / div; need > eff {
		c.R.MaxLe = max(c.R.MaxLe, need)
		if c.O.ReadCap > 0 && c.O.ReadCap < need {
			c.O.ReadCap = need
			p.Cfg.ReadCap = need
		}
		evid.Count("transport-widened-for-file-size", 1)
	}
	chip := p.NewChip()
	r, err := readcheck.Read(p, chip, c.R)
	if err != nil {
		evid.Fail(t, name+"-setup", c.repro(), "%v", err)
	}
	cls := fmt.Sprintf("%s/%s", c.O.Access, c.Sz)
	evid.Case(cls, true, c.key(), c.repro())
	auth := "auth-none"
	switch {
	case c.O.AA != "" && c.O.CA:
		auth = "auth-AA+CA"
	case c.O.AA != "":
		auth = "auth-AA-" + c.O.AA
	case c.O.CA:
		auth = "auth-CA"
	}
	evid.Count(auth, 1)
	evid.Count(fmt.Sprintf("trusted-%v", c.O.Trusted), 1)
	evid.Count(fmt.Sprintf("extended-%v", c.O.Extended), 1)
	if c.O.LeReject > 0 && c.R.MaxLe > c.O.LeReject {
		evid.Count("le-fallback-needed", 1)
	}
	if c.O.ChunkMod > 0 {
		evid.Count("variable-chunks", 1)
	}
	evid.Count(fmt.Sprintf("exchanges-%dk", len(chip.Transcript)/1000), 1)
	rep := c.repro()
	rep["exchanges"] = len(chip.Transcript)
	if largest >= 32768 {
		// Offsets >= 32768 cannot be addressed by READ BINARY with an even INS (bit 8 of P1
		// selects short-EF addressing); the reader has no odd-INS variant, so such a file is
		// beyond "sizes the transport supports": the read may fail, but must not return
		// different bytes (silent corruption is known finding C13/F4 while that is open).
		evid.Count("file-beyond-32767", 1)
		if evid.Open("C13", "F4-offset-32768-sfi") {
			evid.Excluded("F4-offset-32768-sfi")
			return
		}
		if r.Err != nil && largest > 65539 {
			// a top-level object of 65536 or more content bytes needs the 83 length form (5 header
			// bytes): beyond the 64 KiB limit of the file-read routine (C13's stated domain)
			evid.Count("file-beyond-64KiB-limit-read-refused", 1)
			return
		}
		if r.Err != nil {
			// ... and only when the read really needed such an offset: the chip-side transcript
			// shows how far the file that was being read had got; a refusal before the next
			// chunk would start at 32768 is not explained by the addressing limit
			next, file := nextOffsetNeeded(chip)
			if next <= 0x7FFF {
				evid.Fail(t, name+"-error-large-file", rep, "reading a file of more than 32767 bytes failed although the next chunk of file %04x would start at offset %d (<= 32767): %v", file, next, r.Err)
			}
			evid.Count("large-file-read-refused-at-offset>=32768", 1)
			return
		}
		evid.Count("large-file-read-complete", 1)
	}
	if r.Err != nil {
		evid.Fail(t, name+"-error", rep, "reading a conforming chip with the right password failed: %v", r.Err)
	}
	if msg := readcheck.FilesEqualChip(p, &r.DocEx.Document); msg != "" {
		evid.Fail(t, name+"-files", rep, "%s", msg)
	}
	if msg := readcheck.Complete(p, &r.DocEx.Document, c.R.SkipImages); msg != "" {
		evid.Fail(t, name+"-complete", rep, "%s", msg)
	}
	if msg := readcheck.StepOutcomes(p, &r.DocEx.Session); msg != "" {
		evid.Fail(t, name+"-steps", rep, "%s", msg)
	}
	if msg := readcheck.AgreesWithChip(chip, &r.DocEx.Session); msg != "" {
		evid.Fail(t, name+"-chip", rep, "%s", msg)
	}
	if msg := readcheck.NoPlainLDS(chip); msg != "" {
		evid.Fail(t, name+"-transcript", rep, "%s", msg)
	}
	if r.DocEx.Session.DocumentVerifyErr != nil {
		evid.Fail(t, name+"-verify", rep, "completeness check failed on a genuine document: %v", r.DocEx.Session.DocumentVerifyErr)
	}
}

func TestReadConformingChips(t *testing.T) {
	evid.RapidCheck(t, 2400, 120000, func(rt *rapid.T) {
		c := drawCase(rt)
		check(rt, c, "read")
	})
}
