package issuer

import (
	"bytes"
	"errors"
	"math/big"
	"sort"
	"time"

	"verifharness/ref/der"
)

// CMS / ICAO object identifiers.
const (
	OidSignedData     = "1.2.840.113549.1.7.2"
	OidData           = "1.2.840.113549.1.7.1"
	OidAttrContentTyp = "1.2.840.113549.1.9.3"
	OidAttrMsgDigest  = "1.2.840.113549.1.9.4"
	OidAttrSigningTim = "1.2.840.113549.1.9.5"
	OidAttrUnknown    = "1.3.6.1.4.1.55555.2.1" // an attribute nobody knows

	OidLDSSecurityObject       = "2.23.136.1.1.1"        // id-icao-mrtd-security-ldsSecurityObject
	OidLDSSecurityObjectLegacy = "1.3.27.1.1.1"          // legacy icao(27) arc
	OidLDSSecurityObjectSdu    = "1.2.528.1.1006.1.20.1" // Sdu (NL) variant
	OidCscaMasterList          = "2.23.136.1.1.2"        // id-icao-cscaMasterList
	OidCardSecurityObject      = "0.4.0.127.0.7.3.2.1"   // id-SecurityObject (BSI TR-03110)
)

// Wrapper levels of a SignedData encoding whose length form can be chosen.
// Only constructed wrappers outside every signed region are listed, so any
// choice leaves the signatures valid.
const (
	LvOuter77     = "outer77"     // the EF.SOD application tag 77
	LvContentInfo = "contentInfo" // ContentInfo SEQUENCE
	LvContent0    = "content0"    // [0] EXPLICIT around SignedData
	LvSignedData  = "signedData"  // SignedData SEQUENCE
	LvDigestAlgs  = "digestAlgs"  // digestAlgorithms SET
	LvEncap       = "encap"       // EncapsulatedContentInfo SEQUENCE
	LvEContent0   = "econtent0"   // [0] EXPLICIT around the eContent OCTET STRING
	LvCerts       = "certs"       // [0] IMPLICIT certificates
	LvSignerInfos = "signerInfos" // signerInfos SET
	LvSignerInfo  = "signerInfo"  // each SignerInfo SEQUENCE
	LvUnsigned    = "unsigned"    // [1] IMPLICIT unsignedAttrs
)

// Levels lists all wrapper levels (outermost first).
var Levels = []string{LvOuter77, LvContentInfo, LvContent0, LvSignedData, LvDigestAlgs, LvEncap, LvEContent0, LvCerts, LvSignerInfos, LvSignerInfo, LvUnsigned}

// Encoding chooses the length form of each wrapper level (missing = DER).
type Encoding map[string]der.LenForm

// AllLevels gives every level the same form.
func AllLevels(f der.LenForm) Encoding {
	e := Encoding{}
	for _, l := range Levels {
		e[l] = f
	}
	return e
}

func (e Encoding) wrap(level string, tagBytes []byte, content []byte) []byte {
	return der.TLVLen(tagBytes, content, e[level])
}

// Attribute is a CMS attribute (Values are complete TLVs).
type Attribute struct {
	OID    string
	Values [][]byte
}

func (a Attribute) der() []byte { return der.Seq(der.OID(a.OID), der.Set(a.Values...)) }

// SIDForm selects the SignerIdentifier choice.
type SIDForm int

const (
	SIDIssuerSerial SIDForm = iota
	SIDSubjectKeyID
)

// AttrOrder selects the order in which signed attributes are written (and
// signed: the signature always covers exactly the octets that are emitted,
// with the [0] tag replaced by SET).
type AttrOrder int

const (
	AttrDER     AttrOrder = iota // DER SET OF order (sorted encodings) - what RFC 5652 prescribes for the signed form
	AttrNatural                  // contentType, signingTime, messageDigest, extras (common in the field)
	AttrReverse                  // extras, messageDigest, signingTime, contentType
)

// Signer describes one SignerInfo.
type Signer struct {
	Cert   *Certificate // certificate the SignerIdentifier refers to
	Key    *Key         // signing key; nil = Cert.Key (set another key for forgeries)
	SigAlg SigAlg       // signature algorithm

	DigestAlg  string // SignerInfo.digestAlgorithm; "" = SigAlg.Hash
	DigestNull bool   // NULL parameters in digestAlgorithm
	Version    int    // 0 = by SID form (1 / 3)

	SID       SIDForm
	SIDIssuer []byte   // issuer Name TLV in the SID; nil = the certificate's issuer
	SIDSerial *big.Int // nil = the certificate's serial
	SIDSKI    []byte   // nil = the certificate's SKI (or its key's identifier)

	ContentType       string // content-type attribute value; "" = the eContentType
	OmitContentType   bool
	MessageDigest     []byte // nil = H(eContent)
	OmitMessageDigest bool
	SigningTime       *time.Time // nil = no signing-time attribute
	SigningTimeForm   TimeForm
	ExtraSigned       []Attribute
	Order             AttrOrder
	Unsigned          []Attribute

	NoSignedAttrs   bool   // sign the eContent directly (no signedAttrs field)
	SignOverContent bool   // defect: keep signedAttrs but sign the eContent
	Signature       []byte // override the signature value
}

// CMSSpec describes a SignedData completely.
type CMSSpec struct {
	EContentType string
	EContent     []byte // the content that is digested / signed
	EmitEContent []byte // emitted instead of EContent when non-nil (tampering after signing)
	EmitType     string // emitted eContentType when non-empty

	Version          int      // 0 = 3
	DigestAlgorithms []string // nil = the signers' digest algorithms
	DigestNull       bool
	Certificates     [][]byte // complete certificate TLVs, in order
	OmitCertificates bool     // leave the certificates field out altogether
	CRLs             [][]byte
	Signers          []Signer
	Encoding         Encoding
	Wrap77           bool // wrap the ContentInfo in the EF.SOD tag 77
}

// SignerResult records what one signer signed.
type SignerResult struct {
	SignedAttrs []byte // DER SET (tag 31) the signature covers; nil without signed attributes
	Signature   []byte
	Cert        *Certificate
	SignerInfo  []byte
}

// SignedData is a generated CMS object with its authenticated parts.
type SignedData struct {
	DER          []byte // the complete file (ContentInfo, inside 77 when asked)
	ContentInfo  []byte // without the 77 wrapper
	EContentType string
	EContent     []byte // as emitted
	Certificates [][]byte
	Signers      []SignerResult
	Spec         CMSSpec
}

// BuildSignedData builds and signs the object.
func BuildSignedData(src Source, spec CMSSpec) (*SignedData, error) {
	if len(spec.Signers) == 0 {
		return nil, errors.New("issuer: SignedData needs a signer")
	}
	enc := spec.Encoding
	out := &SignedData{Spec: spec}

	var digestNames []string
	var sis [][]byte
	for i := range spec.Signers {
		s := &spec.Signers[i]
		si, res, err := buildSignerInfo(src, &spec, s)
		if err != nil {
			return nil, err
		}
		sis = append(sis, si)
		out.Signers = append(out.Signers, *res)
		d := s.DigestAlg
		if d == "" {
			d = s.SigAlg.Hash
		}
		dup := false
		for _, n := range digestNames {
			dup = dup || n == d
		}
		if !dup {
			digestNames = append(digestNames, d)
		}
	}
	if spec.DigestAlgorithms != nil {
		digestNames = spec.DigestAlgorithms
	}
	var dalgs [][]byte
	for _, n := range digestNames {
		dalgs = append(dalgs, HashAlgID(n, spec.DigestNull))
	}

	eContent := spec.EContent
	if spec.EmitEContent != nil {
		eContent = spec.EmitEContent
	}
	eType := spec.EContentType
	if spec.EmitType != "" {
		eType = spec.EmitType
	}
	out.EContent, out.EContentType = eContent, eType

	version := spec.Version
	if version == 0 {
		version = 3
	}
	sdParts := [][]byte{
		der.IntFromInt64(int64(version)),
		enc.wrap(LvDigestAlgs, []byte{der.TagSet}, der.Cat(dalgs...)),
		enc.wrap(LvEncap, []byte{der.TagSequence}, der.Cat(der.OID(eType),
			enc.wrap(LvEContent0, der.Identifier(der.ClassContext, true, 0), der.OctetString(eContent)))),
	}
	if !spec.OmitCertificates {
		sdParts = append(sdParts, enc.wrap(LvCerts, der.Identifier(der.ClassContext, true, 0), der.Cat(spec.Certificates...)))
		out.Certificates = spec.Certificates
	}
	if len(spec.CRLs) > 0 {
		sdParts = append(sdParts, der.Implicit(1, true, der.Cat(spec.CRLs...)))
	}
	sdParts = append(sdParts, enc.wrap(LvSignerInfos, []byte{der.TagSet}, der.Cat(sis...)))
	sd := enc.wrap(LvSignedData, []byte{der.TagSequence}, der.Cat(sdParts...))
	ci := enc.wrap(LvContentInfo, []byte{der.TagSequence}, der.Cat(der.OID(OidSignedData),
		enc.wrap(LvContent0, der.Identifier(der.ClassContext, true, 0), sd)))
	out.ContentInfo = ci
	out.DER = ci
	if spec.Wrap77 {
		out.DER = enc.wrap(LvOuter77, []byte{0x77}, ci)
	}
	return out, nil
}

func buildSignerInfo(src Source, spec *CMSSpec, s *Signer) ([]byte, *SignerResult, error) {
	if s.Cert == nil {
		return nil, nil, errors.New("issuer: signer without certificate")
	}
	key := s.Key
	if key == nil {
		key = s.Cert.Key
	}
	digestAlg := s.DigestAlg
	if digestAlg == "" {
		digestAlg = s.SigAlg.Hash
	}
	res := &SignerResult{Cert: s.Cert}

	// SignerIdentifier
	var sid []byte
	version := 1
	if s.SID == SIDSubjectKeyID {
		version = 3
		ski := s.SIDSKI
		if ski == nil {
			ski = s.Cert.Tmpl.SKI
		}
		if ski == nil {
			ski = s.Cert.Key.SKI()
		}
		sid = der.Implicit(0, false, ski)
	} else {
		iss := s.SIDIssuer
		if iss == nil {
			iss = s.Cert.Tmpl.issuerDER()
		}
		ser := s.SIDSerial
		if ser == nil {
			ser = s.Cert.Tmpl.Serial
		}
		sid = der.Seq(iss, der.Int(ser))
	}
	if s.Version != 0 {
		version = s.Version
	}

	// signed attributes
	var attrsField []byte
	toSign := spec.EContent
	if !s.NoSignedAttrs {
		var ct, st, md []byte
		if !s.OmitContentType {
			t := s.ContentType
			if t == "" {
				t = spec.EContentType
			}
			ct = Attribute{OID: OidAttrContentTyp, Values: [][]byte{der.OID(t)}}.der()
		}
		if s.SigningTime != nil {
			st = Attribute{OID: OidAttrSigningTim, Values: [][]byte{EncodeTime(*s.SigningTime, s.SigningTimeForm)}}.der()
		}
		if !s.OmitMessageDigest {
			d := s.MessageDigest
			if d == nil {
				d = Digest(digestAlg, spec.EContent)
			}
			md = Attribute{OID: OidAttrMsgDigest, Values: [][]byte{der.OctetString(d)}}.der()
		}
		var list [][]byte
		for _, a := range [][]byte{ct, st, md} {
			if a != nil {
				list = append(list, a)
			}
		}
		for _, a := range s.ExtraSigned {
			list = append(list, a.der())
		}
		switch s.Order {
		case AttrDER:
			sort.SliceStable(list, func(i, j int) bool { return bytes.Compare(list[i], list[j]) < 0 })
		case AttrReverse:
			for i, j := 0, len(list)-1; i < j; i, j = i+1, j-1 {
				list[i], list[j] = list[j], list[i]
			}
		}
		content := der.Cat(list...)
		res.SignedAttrs = der.TLV(der.TagSet, content)
		attrsField = der.Implicit(0, true, content)
		if !s.SignOverContent {
			toSign = res.SignedAttrs
		}
	}

	sig := s.Signature
	if sig == nil {
		alg := s.SigAlg
		// the digest over the signed attributes is computed with the SignerInfo
		// digest algorithm (RFC 5652 5.4); for a consistent profile that is alg.Hash.
		alg.Hash = digestAlg
		var err error
		sig, err = key.Sign(src, alg, toSign)
		if err != nil {
			return nil, nil, err
		}
	}
	res.Signature = sig

	parts := [][]byte{der.IntFromInt64(int64(version)), sid, HashAlgID(digestAlg, s.DigestNull)}
	if attrsField != nil {
		parts = append(parts, attrsField)
	}
	parts = append(parts, s.SigAlg.AlgID(), der.OctetString(sig))
	if len(s.Unsigned) > 0 {
		var us [][]byte
		for _, a := range s.Unsigned {
			us = append(us, a.der())
		}
		parts = append(parts, spec.Encoding.wrap(LvUnsigned, der.Identifier(der.ClassContext, true, 1), der.Cat(us...)))
	}
	si := spec.Encoding.wrap(LvSignerInfo, []byte{der.TagSequence}, der.Cat(parts...))
	res.SignerInfo = si
	return si, res, nil
}

// ---------------------------------------------------------------- LDS security object, master list

// DGHash is one entry of the data-group hash list.
type DGHash struct {
	Number int
	Hash   []byte
}

// LDSSecurityObject builds the eContent of EF.SOD.  version 0 has no
// ldsVersionInfo; version 1 carries (ldsVersion, unicodeVersion).
func LDSSecurityObject(version int, hashAlg string, hashNull bool, hashes []DGHash, ldsVersion, unicodeVersion string) []byte {
	var hs [][]byte
	for _, h := range hashes {
		hs = append(hs, der.Seq(der.IntFromInt64(int64(h.Number)), der.OctetString(h.Hash)))
	}
	parts := [][]byte{der.IntFromInt64(int64(version)), HashAlgID(hashAlg, hashNull), der.Seq(hs...)}
	if version >= 1 {
		parts = append(parts, der.Seq(der.Printable(ldsVersion), der.Printable(unicodeVersion)))
	}
	return der.Seq(parts...)
}

// HashDGs computes the hash list of the files in ascending data-group order.
func HashDGs(hashAlg string, dgs map[int][]byte) []DGHash {
	var nums []int
	for n := range dgs {
		nums = append(nums, n)
	}
	sort.Ints(nums)
	var out []DGHash
	for _, n := range nums {
		out = append(out, DGHash{n, Digest(hashAlg, dgs[n])})
	}
	return out
}

// CscaMasterListContent builds the eContent of a master list:
// SEQUENCE { version INTEGER 0, certList SET OF Certificate } (DER-sorted).
func CscaMasterListContent(certs [][]byte) []byte {
	return der.Seq(der.IntFromInt64(0), der.SetSorted(certs...))
}
