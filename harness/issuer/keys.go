package issuer

import (
	"crypto/md5"
	"crypto/sha1"
	"crypto/sha256"
	"crypto/sha512"
	"errors"
	"fmt"
	"hash"
	"math/big"

	"verifharness/ref/der"
	"verifharness/ref/ecc"
	"verifharness/ref/iso9796"
)

// ---------------------------------------------------------------- OIDs

const (
	OidRSAEncryption = "1.2.840.113549.1.1.1"
	OidRSASSAPSS     = "1.2.840.113549.1.1.10"
	OidMGF1          = "1.2.840.113549.1.1.8"
	OidECPublicKey   = "1.2.840.10045.2.1"

	OidSHA1   = "1.3.14.3.2.26"
	OidSHA224 = "2.16.840.1.101.3.4.2.4"
	OidSHA256 = "2.16.840.1.101.3.4.2.1"
	OidSHA384 = "2.16.840.1.101.3.4.2.2"
	OidSHA512 = "2.16.840.1.101.3.4.2.3"
	OidMD5    = "1.2.840.113549.2.5"
)

// Hashes lists the digest names of the profile matrix, weakest first.
var Hashes = []string{"sha1", "sha224", "sha256", "sha384", "sha512"}

// HashOID maps a digest name to its OID (panics on an unknown name).
func HashOID(name string) string {
	switch name {
	case "sha1":
		return OidSHA1
	case "sha224":
		return OidSHA224
	case "sha256":
		return OidSHA256
	case "sha384":
		return OidSHA384
	case "sha512":
		return OidSHA512
	case "md5":
		return OidMD5
	}
	panic("issuer: unknown hash " + name)
}

// NewHash returns a fresh hash for a digest name.
func NewHash(name string) hash.Hash {
	switch name {
	case "sha1":
		return sha1.New()
	case "sha224":
		return sha256.New224()
	case "sha256":
		return sha256.New()
	case "sha384":
		return sha512.New384()
	case "sha512":
		return sha512.New()
	case "md5":
		return md5.New()
	}
	panic("issuer: unknown hash " + name)
}

// Digest hashes data with the named digest.
func Digest(name string, data []byte) []byte {
	h := NewHash(name)
	h.Write(data)
	return h.Sum(nil)
}

// HashLen is the output length of the named digest in octets.
func HashLen(name string) int { return NewHash(name).Size() }

// HashAlgID is the AlgorithmIdentifier of a digest; withNull adds the NULL
// parameters (both forms are in use and both are valid).
func HashAlgID(name string, withNull bool) []byte {
	if withNull {
		return der.Seq(der.OID(HashOID(name)), der.Null())
	}
	return der.Seq(der.OID(HashOID(name)))
}

// ---------------------------------------------------------------- keys

// KeySpec selects a key type.
type KeySpec struct {
	Type string // "rsa" or "ec"

	// RSA: modulus bit length (a size of the committed pool: 1024, 1028, 1280,
	// 1536, 2047, 2048, 3071, 3072, 4096) and the index of the key among the
	// usable pool keys of that size (taken modulo their number).
	Bits  int
	Index int

	// EC: curve name of ref/ecc (P-192 … P-521, brainpoolP192r1 … brainpoolP512r1);
	// Explicit selects explicit ECParameters in the SubjectPublicKeyInfo instead
	// of the named-curve OID; Cofactor / Seed add the optional fields (the seed
	// exists for the NIST curves only).
	Curve    string
	Explicit bool
	Cofactor bool
	Seed     bool
}

func (s KeySpec) String() string {
	if s.Type == "rsa" {
		return fmt.Sprintf("rsa%d#%d", s.Bits, s.Index)
	}
	f := "named"
	if s.Explicit {
		f = "explicit"
		if s.Cofactor {
			f += "+h"
		}
		if s.Seed {
			f += "+seed"
		}
	}
	return s.Curve + "/" + f
}

// RSA returns the spec of pool key #index with the given modulus size.
func RSA(bits, index int) KeySpec { return KeySpec{Type: "rsa", Bits: bits, Index: index} }

// ECNamed returns the spec of an EC key with a named-curve SubjectPublicKeyInfo.
func ECNamed(curve string) KeySpec { return KeySpec{Type: "ec", Curve: curve} }

// ECExplicit returns the spec of an EC key with explicit parameters including
// the cofactor (the form ICAO 9303-12 prescribes).
func ECExplicit(curve string) KeySpec {
	return KeySpec{Type: "ec", Curve: curve, Explicit: true, Cofactor: true}
}

// Key is a private key with the public encoding chosen by its spec.
type Key struct {
	Spec  KeySpec
	RSA   *iso9796.Key // RSA keys
	Curve *ecc.Curve   // EC keys
	D     *big.Int     // EC private scalar
	Q     ecc.Point    // EC public point
}

// RSAPoolKeys returns the usable pool keys of one size: public exponent below
// 2^31 (larger exponents are refused by crypto/rsa itself and are outside every
// profile).
func RSAPoolKeys(bits int) []iso9796.Key {
	var out []iso9796.Key
	for _, k := range iso9796.PoolBits(bits) {
		if k.E.BitLen() <= 31 {
			out = append(out, k)
		}
	}
	return out
}

// RSASizes lists the modulus sizes of the pool.
var RSASizes = []int{1024, 1028, 1280, 1536, 2047, 2048, 3071, 3072, 4096}

// NewKey makes the key for spec.  EC private scalars are derived from src
// (ByteLen+8 octets reduced into [1,n-1]); RSA keys are taken from the pool and
// consume nothing from src.
func NewKey(src Source, spec KeySpec) (*Key, error) {
	switch spec.Type {
	case "rsa":
		ks := RSAPoolKeys(spec.Bits)
		if len(ks) == 0 {
			return nil, fmt.Errorf("issuer: no pool key of %d bits", spec.Bits)
		}
		i := spec.Index % len(ks)
		if i < 0 {
			i += len(ks)
		}
		k := ks[i]
		return &Key{Spec: spec, RSA: &k}, nil
	case "ec":
		c := ecc.ByName(spec.Curve)
		if c == nil {
			return nil, fmt.Errorf("issuer: unknown curve %q", spec.Curve)
		}
		d := c.ScalarFromBytes(src.Bytes(c.ByteLen + 8))
		return &Key{Spec: spec, Curve: c, D: d, Q: c.ScalarBaseMult(d)}, nil
	}
	return nil, fmt.Errorf("issuer: unknown key type %q", spec.Type)
}

// WithSpec returns the same key material under another public encoding (e.g.
// the named form of a key first made with explicit parameters).
func (k *Key) WithSpec(spec KeySpec) *Key {
	c := *k
	c.Spec = spec
	return &c
}

// IsRSA reports the key type.
func (k *Key) IsRSA() bool { return k.RSA != nil }

// PublicKeyBits is the content of the subjectPublicKey BIT STRING (without the
// unused-bits octet): RSAPublicKey DER, or the uncompressed point.
func (k *Key) PublicKeyBits() []byte {
	if k.RSA != nil {
		return der.Seq(der.Int(k.RSA.N), der.Int(k.RSA.E))
	}
	return k.Curve.Encode(k.Q)
}

// SPKI returns the DER SubjectPublicKeyInfo in the encoding chosen by the spec.
func (k *Key) SPKI() []byte {
	if k.RSA != nil {
		return der.Seq(der.Seq(der.OID(OidRSAEncryption), der.Null()), der.BitString(k.PublicKeyBits(), 0))
	}
	if k.Spec.Explicit {
		return k.Curve.SPKIExplicit(k.Q, k.Spec.Cofactor, k.Spec.Seed)
	}
	return k.Curve.SPKINamed(k.Q)
}

// SKI is the RFC 5280 4.2.1.2 method-1 key identifier: SHA-1 of the
// subjectPublicKey bits.
func (k *Key) SKI() []byte { s := sha1.Sum(k.PublicKeyBits()); return s[:] }

// SameKey reports whether two keys have the same key material.
func (k *Key) SameKey(o *Key) bool {
	if k.RSA != nil || o.RSA != nil {
		return k.RSA != nil && o.RSA != nil && k.RSA.N.Cmp(o.RSA.N) == 0 && k.RSA.E.Cmp(o.RSA.E) == 0
	}
	return k.Curve == o.Curve && k.Q.X.Cmp(o.Q.X) == 0 && k.Q.Y.Cmp(o.Q.Y) == 0
}

// ---------------------------------------------------------------- signature algorithms

// SigAlg is a signature algorithm with its encoding choices.
type SigAlg struct {
	Scheme string // "pkcs1", "pss", "ecdsa"
	Hash   string // "sha1" … "sha512"

	// PKCS#1 v1.5.  NoNull omits the NULL parameters of shaXWithRSAEncryption
	// (allowed by RFC 4055 for verification, not the preferred form).
	// Generic writes the algorithm as rsaEncryption (CMS SignerInfo only; the
	// digest is then taken from SignerInfo.digestAlgorithm, RFC 3370 3.2).
	NoNull  bool
	Generic bool

	// RSASSA-PSS.  SaltLen: -1 = length of the hash, otherwise the value.
	// MGFHash: "" = the same as Hash.  OmitDefaults encodes the parameters in
	// DER, i.e. leaves out every field that has its DEFAULT value (hash SHA-1,
	// MGF1 with SHA-1, salt length 20, trailer 1); otherwise hash, MGF and
	// salt length are written explicitly (the common practice) and the trailer
	// only with ExplicitTrailer.
	SaltLen         int
	MGFHash         string
	OmitDefaults    bool
	ExplicitTrailer bool
}

func (a SigAlg) String() string {
	s := a.Scheme + "-" + a.Hash
	switch a.Scheme {
	case "pss":
		s += fmt.Sprintf("/salt%d", a.saltLen())
		if a.MGFHash != "" && a.MGFHash != a.Hash {
			s += "/mgf-" + a.MGFHash
		}
		if a.OmitDefaults {
			s += "/der"
		}
		if a.ExplicitTrailer {
			s += "/trailer"
		}
	case "pkcs1":
		if a.NoNull {
			s += "/nonull"
		}
		if a.Generic {
			s += "/generic"
		}
	}
	return s
}

// PKCS1, PSS and ECDSA are the plain algorithm constructors.
func PKCS1(hash string) SigAlg { return SigAlg{Scheme: "pkcs1", Hash: hash} }
func PSS(hash string) SigAlg   { return SigAlg{Scheme: "pss", Hash: hash, SaltLen: -1} }
func ECDSA(hash string) SigAlg { return SigAlg{Scheme: "ecdsa", Hash: hash} }

// DefaultSigAlg is the usual algorithm for a key type with the given digest.
func DefaultSigAlg(spec KeySpec, hash string) SigAlg {
	if spec.Type == "rsa" {
		return PKCS1(hash)
	}
	return ECDSA(hash)
}

func (a SigAlg) saltLen() int {
	if a.SaltLen < 0 {
		return HashLen(a.Hash)
	}
	return a.SaltLen
}

func (a SigAlg) mgfHash() string {
	if a.MGFHash == "" {
		return a.Hash
	}
	return a.MGFHash
}

var pkcs1OIDs = map[string]string{
	"sha1": "1.2.840.113549.1.1.5", "sha224": "1.2.840.113549.1.1.14", "sha256": "1.2.840.113549.1.1.11",
	"sha384": "1.2.840.113549.1.1.12", "sha512": "1.2.840.113549.1.1.13", "md5": "1.2.840.113549.1.1.4",
}

var ecdsaOIDs = map[string]string{
	"sha1": "1.2.840.10045.4.1", "sha224": "1.2.840.10045.4.3.1", "sha256": "1.2.840.10045.4.3.2",
	"sha384": "1.2.840.10045.4.3.3", "sha512": "1.2.840.10045.4.3.4",
}

// PSSParams returns the RSASSA-PSS-params SEQUENCE.
func (a SigAlg) PSSParams() []byte {
	var parts [][]byte
	if !(a.OmitDefaults && a.Hash == "sha1") {
		parts = append(parts, der.Explicit(0, HashAlgID(a.Hash, true)))
	}
	if !(a.OmitDefaults && a.mgfHash() == "sha1") {
		parts = append(parts, der.Explicit(1, der.Seq(der.OID(OidMGF1), HashAlgID(a.mgfHash(), true))))
	}
	if !(a.OmitDefaults && a.saltLen() == 20) {
		parts = append(parts, der.Explicit(2, der.IntFromInt64(int64(a.saltLen()))))
	}
	if a.ExplicitTrailer && !a.OmitDefaults {
		parts = append(parts, der.Explicit(3, der.IntFromInt64(1)))
	}
	return der.Seq(parts...)
}

// AlgID returns the signature AlgorithmIdentifier (certificate signature /
// SignerInfo.signatureAlgorithm).
func (a SigAlg) AlgID() []byte {
	switch a.Scheme {
	case "pkcs1":
		if a.Generic {
			return der.Seq(der.OID(OidRSAEncryption), der.Null())
		}
		o, ok := pkcs1OIDs[a.Hash]
		if !ok {
			panic("issuer: no PKCS#1 OID for " + a.Hash)
		}
		if a.NoNull {
			return der.Seq(der.OID(o))
		}
		return der.Seq(der.OID(o), der.Null())
	case "pss":
		return der.Seq(der.OID(OidRSASSAPSS), a.PSSParams())
	case "ecdsa":
		o, ok := ecdsaOIDs[a.Hash]
		if !ok {
			panic("issuer: no ECDSA OID for " + a.Hash)
		}
		return der.Seq(der.OID(o))
	}
	panic("issuer: unknown signature scheme " + a.Scheme)
}

// Fits reports whether the algorithm can be used with the key type.
func (a SigAlg) Fits(k *Key) bool { return (a.Scheme == "ecdsa") == !k.IsRSA() }

// ---------------------------------------------------------------- signing

// Sign signs msg (the message, not its digest).  ECDSA returns the DER
// Ecdsa-Sig-Value; RSA returns a signature of exactly ceil(modBits/8) octets.
func (k *Key) Sign(src Source, a SigAlg, msg []byte) ([]byte, error) {
	return k.SignDigest(src, a, Digest(a.Hash, msg))
}

// SignDigest signs a digest computed with a.Hash.
func (k *Key) SignDigest(src Source, a SigAlg, digest []byte) ([]byte, error) {
	if !a.Fits(k) {
		return nil, fmt.Errorf("issuer: %s does not fit key %s", a, k.Spec)
	}
	switch a.Scheme {
	case "ecdsa":
		for try := 0; try < 64; try++ {
			nonce := k.Curve.ScalarFromBytes(src.Bytes(k.Curve.ByteLen + 8))
			r, s, err := k.Curve.Sign(k.D, digest, nonce)
			if err != nil {
				continue
			}
			return ecc.SigDER(r, s), nil
		}
		return nil, errors.New("issuer: no usable ECDSA nonce")
	case "pkcs1":
		em, err := emsaPKCS1(a.Hash, digest, (k.RSA.N.BitLen()+7)/8)
		if err != nil {
			return nil, err
		}
		return k.rsaPrivate(em), nil
	case "pss":
		sl := a.saltLen()
		var salt []byte
		if sl > 0 {
			salt = src.Bytes(sl)
		}
		em, err := emsaPSS(a.Hash, a.mgfHash(), digest, salt, k.RSA.N.BitLen()-1)
		if err != nil {
			return nil, err
		}
		return k.rsaPrivate(em), nil
	}
	return nil, fmt.Errorf("issuer: unknown scheme %q", a.Scheme)
}

// rsaPrivate computes em^d mod n with the CRT and returns ceil(modBits/8) octets.
func (k *Key) rsaPrivate(em []byte) []byte {
	m := new(big.Int).SetBytes(em)
	p, q, d := k.RSA.P, k.RSA.Q, k.RSA.D
	one := big.NewInt(1)
	dp := new(big.Int).Mod(d, new(big.Int).Sub(p, one))
	dq := new(big.Int).Mod(d, new(big.Int).Sub(q, one))
	m1 := new(big.Int).Exp(m, dp, p)
	m2 := new(big.Int).Exp(m, dq, q)
	qinv := new(big.Int).ModInverse(q, p)
	h := new(big.Int).Sub(m1, m2)
	h.Mul(h, qinv).Mod(h, p)
	s := new(big.Int).Mul(h, q)
	s.Add(s, m2)
	// self-check (cheap: public exponent)
	if new(big.Int).Exp(s, k.RSA.E, k.RSA.N).Cmp(m) != 0 {
		panic("issuer: RSA CRT self-check failed")
	}
	return s.FillBytes(make([]byte, (k.RSA.N.BitLen()+7)/8))
}

// emsaPKCS1 is EMSA-PKCS1-v1_5 (RFC 8017 9.2).
func emsaPKCS1(hash string, digest []byte, k int) ([]byte, error) {
	t := der.Seq(der.Seq(der.OID(HashOID(hash)), der.Null()), der.OctetString(digest))
	if k < len(t)+11 {
		return nil, errors.New("issuer: modulus too short for PKCS#1 v1.5")
	}
	em := make([]byte, 0, k)
	em = append(em, 0, 1)
	for i := 0; i < k-len(t)-3; i++ {
		em = append(em, 0xff)
	}
	em = append(em, 0)
	return append(em, t...), nil
}

func mgf1(hash string, seed []byte, n int) []byte {
	var out []byte
	for c := uint32(0); len(out) < n; c++ {
		h := NewHash(hash)
		h.Write(seed)
		h.Write([]byte{byte(c >> 24), byte(c >> 16), byte(c >> 8), byte(c)})
		out = h.Sum(out)
	}
	return out[:n]
}

// emsaPSS is EMSA-PSS-ENCODE (RFC 8017 9.1.1) for a precomputed mHash.
func emsaPSS(hash, mgfHash string, mHash, salt []byte, emBits int) ([]byte, error) {
	hLen := HashLen(hash)
	emLen := (emBits + 7) / 8
	if emLen < hLen+len(salt)+2 {
		return nil, errors.New("issuer: modulus too short for this PSS salt length")
	}
	h := NewHash(hash)
	h.Write(make([]byte, 8))
	h.Write(mHash)
	h.Write(salt)
	H := h.Sum(nil)
	db := make([]byte, emLen-hLen-1)
	db[len(db)-len(salt)-1] = 1
	copy(db[len(db)-len(salt):], salt)
	mask := mgf1(mgfHash, H, len(db))
	for i := range db {
		db[i] ^= mask[i]
	}
	db[0] &= 0xff >> uint(8*emLen-emBits)
	em := append(db, H...)
	return append(em, 0xbc), nil
}

// MaxPSSSalt is the largest salt a key of modBits can carry with the digest.
func MaxPSSSalt(modBits int, hash string) int { return (modBits-1+7)/8 - HashLen(hash) - 2 }
