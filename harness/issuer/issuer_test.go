package issuer

import (
	"bytes"
	"crypto"
	"crypto/ecdsa"
	"crypto/elliptic"
	"crypto/rsa"
	"crypto/x509"
	"fmt"
	"math/big"
	"testing"
	"time"

	"github.com/osanderson/brainpool"

	"verifharness/ref/der"
	"verifharness/ref/ecc"
)

// Self-validation of the generator: every object it emits is checked with the
// standard library (crypto/x509 parsing where x509 knows the key type,
// crypto/rsa and crypto/ecdsa verification; brainpool through
// github.com/osanderson/brainpool + crypto/ecdsa AND ref/ecc; P-192 through
// ref/ecc).  A wrong generator fails here, not as a "defect" of the code under
// test.

var stdHash = map[string]crypto.Hash{"sha1": crypto.SHA1, "sha224": crypto.SHA224, "sha256": crypto.SHA256, "sha384": crypto.SHA384, "sha512": crypto.SHA512}

func stdCurve(name string) elliptic.Curve {
	switch name {
	case "P-224":
		return elliptic.P224()
	case "P-256":
		return elliptic.P256()
	case "P-384":
		return elliptic.P384()
	case "P-521":
		return elliptic.P521()
	case "brainpoolP192r1":
		return brainpool.P192r1()
	case "brainpoolP224r1":
		return brainpool.P224r1()
	case "brainpoolP256r1":
		return brainpool.P256r1()
	case "brainpoolP320r1":
		return brainpool.P320r1()
	case "brainpoolP384r1":
		return brainpool.P384r1()
	case "brainpoolP512r1":
		return brainpool.P512r1()
	}
	return nil // P-192: not in the standard library
}

// verifyStd checks sig over msg under key with library code only.
func verifyStd(k *Key, a SigAlg, digestName string, msg, sig []byte) error {
	d := Digest(digestName, msg)
	switch a.Scheme {
	case "pkcs1":
		pub := &rsa.PublicKey{N: k.RSA.N, E: int(k.RSA.E.Int64())}
		return rsa.VerifyPKCS1v15(pub, stdHash[digestName], d, sig)
	case "pss":
		if a.mgfHash() != digestName {
			return verifyPSSOwn(k, a, digestName, d, sig)
		}
		pub := &rsa.PublicKey{N: k.RSA.N, E: int(k.RSA.E.Int64())}
		return rsa.VerifyPSS(pub, stdHash[digestName], d, sig, &rsa.PSSOptions{SaltLength: a.saltLen(), Hash: stdHash[digestName]})
	case "ecdsa":
		r, s, rest, err := ecc.ParseSigDER(sig)
		if err != nil || len(rest) != 0 {
			return fmt.Errorf("signature not DER: %v", err)
		}
		if !k.Curve.Verify(k.Q, d, r, s) {
			return fmt.Errorf("ref/ecc refuses the signature")
		}
		if c := stdCurve(k.Curve.Name); c != nil {
			if !ecdsa.Verify(&ecdsa.PublicKey{Curve: c, X: k.Q.X, Y: k.Q.Y}, d, r, s) {
				return fmt.Errorf("crypto/ecdsa refuses the signature on %s", k.Curve.Name)
			}
		}
		return nil
	}
	return fmt.Errorf("scheme %q", a.Scheme)
}

// verifyPSSOwn: EMSA-PSS-VERIFY for parameter sets crypto/rsa cannot express
// (MGF1 hash different from the message hash).
func verifyPSSOwn(k *Key, a SigAlg, digestName string, mHash, sig []byte) error {
	m := new(big.Int).Exp(new(big.Int).SetBytes(sig), k.RSA.E, k.RSA.N)
	emBits := k.RSA.N.BitLen() - 1
	emLen := (emBits + 7) / 8
	em := m.FillBytes(make([]byte, (k.RSA.N.BitLen()+7)/8))
	em = em[len(em)-emLen:]
	hLen := HashLen(digestName)
	if em[len(em)-1] != 0xbc {
		return fmt.Errorf("trailer")
	}
	db, H := append([]byte{}, em[:emLen-hLen-1]...), em[emLen-hLen-1:emLen-1]
	mask := mgf1(a.mgfHash(), H, len(db))
	for i := range db {
		db[i] ^= mask[i]
	}
	db[0] &= 0xff >> uint(8*emLen-emBits)
	sl := a.saltLen()
	for _, b := range db[:len(db)-sl-1] {
		if b != 0 {
			return fmt.Errorf("PS not zero")
		}
	}
	if db[len(db)-sl-1] != 1 {
		return fmt.Errorf("separator")
	}
	h := NewHash(digestName)
	h.Write(make([]byte, 8))
	h.Write(mHash)
	h.Write(db[len(db)-sl:])
	if !bytes.Equal(h.Sum(nil), H) {
		return fmt.Errorf("H mismatch")
	}
	return nil
}

func x509Knows(s KeySpec) bool {
	if s.Type == "rsa" {
		return true
	}
	if s.Explicit {
		return false
	}
	switch s.Curve {
	case "P-224", "P-256", "P-384", "P-521":
		return true
	}
	return false
}

// checkCert validates one certificate against its template, signer and x509.
func checkCert(t *testing.T, c *Certificate, signer *Key) {
	t.Helper()
	ci, err := ParseCertificate(c.DER)
	if err != nil {
		t.Fatalf("own reader rejects certificate: %v", err)
	}
	if !bytes.Equal(ci.TBS, c.TBS) || !bytes.Equal(ci.SPKI, c.Key.SPKI()) || ci.Serial.Cmp(c.Tmpl.Serial) != 0 {
		t.Fatalf("certificate fields differ from the template")
	}
	if err := verifyStd(signer, c.Tmpl.SigAlg, c.Tmpl.SigAlg.Hash, ci.TBS, ci.Signature); err != nil {
		t.Fatalf("certificate signature (%s, signer %s): %v", c.Tmpl.SigAlg, signer.Spec, err)
	}
	if !ci.NotBefore.Equal(c.Tmpl.NotBefore) || !ci.NotAfter.Equal(c.Tmpl.NotAfter) {
		t.Fatalf("validity differs: %v %v vs %v %v", ci.NotBefore, ci.NotAfter, c.Tmpl.NotBefore, c.Tmpl.NotAfter)
	}
	if !x509Knows(c.Key.Spec) {
		return
	}
	xc, err := x509.ParseCertificate(c.DER)
	if err != nil {
		t.Fatalf("crypto/x509 rejects certificate (%s / %s): %v\n%x", c.Key.Spec, c.Tmpl.SigAlg, err, c.DER)
	}
	if !bytes.Equal(xc.RawTBSCertificate, c.TBS) || !bytes.Equal(xc.RawSubjectPublicKeyInfo, c.Key.SPKI()) {
		t.Fatalf("x509 sees other TBS/SPKI")
	}
	if !bytes.Equal(xc.SubjectKeyId, c.Tmpl.SKI) || !bytes.Equal(xc.AuthorityKeyId, c.Tmpl.AKI) {
		t.Fatalf("x509 sees other key identifiers: %x %x", xc.SubjectKeyId, xc.AuthorityKeyId)
	}
	if bc := c.Tmpl.BasicConstraints; bc != nil {
		if !xc.BasicConstraintsValid || xc.IsCA != bc.CA {
			t.Fatalf("x509 basicConstraints: valid=%v ca=%v", xc.BasicConstraintsValid, xc.IsCA)
		}
		if bc.HasPath && (xc.MaxPathLen != bc.PathLen || (bc.PathLen == 0 && !xc.MaxPathLenZero)) {
			t.Fatalf("x509 pathLen %d", xc.MaxPathLen)
		}
	}
	if ku := c.Tmpl.KeyUsage; ku != nil {
		want := x509.KeyUsage(0)
		for _, b := range ku.Bits {
			want |= 1 << uint(b)
		}
		if xc.KeyUsage != want {
			t.Fatalf("x509 keyUsage %b want %b", xc.KeyUsage, want)
		}
	}
	if !xc.NotBefore.Equal(c.Tmpl.NotBefore) || !xc.NotAfter.Equal(c.Tmpl.NotAfter) {
		t.Fatalf("x509 validity differs")
	}
	switch pk := xc.PublicKey.(type) {
	case *rsa.PublicKey:
		if pk.N.Cmp(c.Key.RSA.N) != 0 {
			t.Fatalf("x509 modulus differs")
		}
	case *ecdsa.PublicKey:
		if pk.X.Cmp(c.Key.Q.X) != 0 || pk.Y.Cmp(c.Key.Q.Y) != 0 {
			t.Fatalf("x509 point differs")
		}
	default:
		t.Fatalf("x509 public key type %T", xc.PublicKey)
	}
	// where x509 itself supports the algorithm, let it verify too
	if a := c.Tmpl.SigAlg; a.Hash != "sha1" && a.Hash != "sha224" && x509Knows(signer.Spec) &&
		(a.Scheme != "pss" || (a.SaltLen == -1 && a.MGFHash == "" && !a.OmitDefaults && a.Hash != "sha224")) {
		parent := &x509.Certificate{PublicKey: stdPub(signer), PublicKeyAlgorithm: xc.PublicKeyAlgorithm}
		if signer.IsRSA() {
			parent.PublicKeyAlgorithm = x509.RSA
		} else {
			parent.PublicKeyAlgorithm = x509.ECDSA
		}
		if err := parent.CheckSignature(xc.SignatureAlgorithm, xc.RawTBSCertificate, xc.Signature); err != nil {
			t.Fatalf("x509.CheckSignature (%s): %v", a, err)
		}
	}
}

func stdPub(k *Key) crypto.PublicKey {
	if k.IsRSA() {
		return &rsa.PublicKey{N: k.RSA.N, E: int(k.RSA.E.Int64())}
	}
	return &ecdsa.PublicKey{Curve: stdCurve(k.Curve.Name), X: k.Q.X, Y: k.Q.Y}
}

// checkCMS validates a generated SignedData: own BER reader, messageDigest,
// signature under the signer certificate's key, embedded certificates.
func checkCMS(t *testing.T, sd *SignedData, wrapped bool, signerKey *Key, alg SigAlg) *CMSView {
	t.Helper()
	v, err := ParseSignedData(sd.DER, wrapped)
	if err != nil {
		t.Fatalf("own reader rejects SignedData: %v\n%x", err, sd.DER)
	}
	if !bytes.Equal(v.EContent, sd.EContent) || v.EContentType != sd.EContentType {
		t.Fatalf("eContent differs")
	}
	if len(v.Signers) != len(sd.Signers) || len(v.Certificates) != len(sd.Certificates) {
		t.Fatalf("signer / certificate count differs")
	}
	for i, s := range v.Signers {
		if !bytes.Equal(s.SignedAttrs, sd.Signers[i].SignedAttrs) {
			t.Fatalf("signed attributes differ")
		}
		dn := HashNameByOID(s.DigestAlgOID)
		if !bytes.Equal(s.MessageDigest, Digest(dn, v.EContent)) {
			t.Fatalf("messageDigest != H(eContent)")
		}
		if s.ContentType != v.EContentType {
			t.Fatalf("content-type attribute %s != %s", s.ContentType, v.EContentType)
		}
		if err := verifyStd(signerKey, alg, dn, s.SignedAttrs, s.Signature); err != nil {
			t.Fatalf("SignerInfo signature (%s, key %s): %v", alg, signerKey.Spec, err)
		}
	}
	return v
}

var t0 = DefaultSigningTime

func allKeySpecs() []KeySpec {
	var out []KeySpec
	for _, b := range RSASizes {
		for i := range RSAPoolKeys(b) {
			out = append(out, RSA(b, i))
		}
	}
	for _, c := range ecc.Curves() {
		out = append(out, ECNamed(c.Name), ECExplicit(c.Name),
			KeySpec{Type: "ec", Curve: c.Name, Explicit: true},
			KeySpec{Type: "ec", Curve: c.Name, Explicit: true, Cofactor: true, Seed: true})
	}
	return out
}

func sigAlgsFor(s KeySpec) []SigAlg {
	var out []SigAlg
	for _, h := range Hashes {
		if s.Type == "ec" {
			out = append(out, ECDSA(h))
			continue
		}
		out = append(out, PKCS1(h), SigAlg{Scheme: "pkcs1", Hash: h, NoNull: true})
		for _, salt := range []int{-1, 0, 20, 7, MaxPSSSalt(s.Bits, h)} {
			eff := salt
			if eff < 0 {
				eff = HashLen(h)
			}
			if eff > MaxPSSSalt(s.Bits, h) || eff < 0 {
				continue
			}
			out = append(out, SigAlg{Scheme: "pss", Hash: h, SaltLen: salt},
				SigAlg{Scheme: "pss", Hash: h, SaltLen: salt, OmitDefaults: true},
				SigAlg{Scheme: "pss", Hash: h, SaltLen: salt, ExplicitTrailer: true})
		}
		if HashLen(h) <= MaxPSSSalt(s.Bits, h) {
			out = append(out, SigAlg{Scheme: "pss", Hash: h, SaltLen: -1, MGFHash: "sha1"})
		}
	}
	return out
}

func TestKeysAndSignatures(t *testing.T) {
	src := NewSeedSource("issuer-selftest-keys")
	for _, spec := range allKeySpecs() {
		k, err := NewKey(src, spec)
		if err != nil {
			t.Fatalf("%s: %v", spec, err)
		}
		if x509Knows(spec) {
			pk, err := x509.ParsePKIXPublicKey(k.SPKI())
			if err != nil {
				t.Fatalf("%s: x509 rejects SPKI: %v", spec, err)
			}
			_ = pk
		}
		for _, a := range sigAlgsFor(spec) {
			msg := src.Bytes(1 + src.Intn(100))
			sig, err := k.Sign(src, a, msg)
			if err != nil {
				t.Fatalf("%s %s: %v", spec, a, err)
			}
			if err := verifyStd(k, a, a.Hash, msg, sig); err != nil {
				t.Fatalf("%s %s: %v", spec, a, err)
			}
			msg[0] ^= 1
			if err := verifyStd(k, a, a.Hash, msg, sig); err == nil {
				t.Fatalf("%s %s: altered message verifies", spec, a)
			}
		}
	}
}

func TestPSSParamsEncoding(t *testing.T) {
	// DER: all defaults omitted => empty SEQUENCE
	if got := (SigAlg{Scheme: "pss", Hash: "sha1", SaltLen: 20, OmitDefaults: true}).PSSParams(); !bytes.Equal(got, []byte{0x30, 0}) {
		t.Fatalf("default params: %x", got)
	}
	// what crypto/x509 writes for SHA256-RSAPSS
	want := der.Seq(
		der.Explicit(0, der.Seq(der.OID(OidSHA256), der.Null())),
		der.Explicit(1, der.Seq(der.OID(OidMGF1), der.Seq(der.OID(OidSHA256), der.Null()))),
		der.Explicit(2, der.IntFromInt64(32)))
	if got := PSS("sha256").PSSParams(); !bytes.Equal(got, want) {
		t.Fatalf("sha256 params: %x", got)
	}
}

func TestCertificatesAndCMSAcrossMatrix(t *testing.T) {
	src := NewSeedSource("issuer-selftest-matrix")
	specs := allKeySpecs()
	n := 0
	for i, cs := range specs {
		ds := specs[(i*7+3)%len(specs)]
		for j, ca := range sigAlgsFor(cs) {
			das := sigAlgsFor(ds)
			da := das[(i+j)%len(das)]
			if (i+j)%3 != 0 && testing.Short() {
				continue
			}
			// keep the run short: every CSCA algorithm once per key spec for EC, a sample for RSA
			if cs.Type == "rsa" && (i+j)%4 != 0 {
				continue
			}
			p := Profile{Country: "UT", CSCAKey: cs, DSKey: ds, CSCASig: ca, DSSig: da, LDSHash: Hashes[(i+j)%5], SigningTime: t0}
			pki, err := NewPKI(src, p)
			if err != nil {
				t.Fatalf("NewPKI %s/%s: %v", cs, ds, err)
			}
			checkCert(t, pki.CSCA, pki.CSCAKey)
			checkCert(t, pki.DS, pki.CSCAKey)
			dgs := map[int][]byte{1: src.Bytes(40), 2: src.Bytes(200), 14: src.Bytes(33)}
			o := SODOptions{LDSVersion: (i + j) % 2}
			o.SID = SIDForm((i + j) % 2)
			switch (i + j) % 3 {
			case 1:
				o.Encoding = AllLevels(der.Indefinite)
			case 2:
				o.Encoding = AllLevels(der.LongNonMinimal(1))
			}
			sod, err := pki.SignSODDetailed(dgs, o)
			if err != nil {
				t.Fatalf("SignSOD: %v", err)
			}
			v := checkCMS(t, sod, true, pki.DSKey, da)
			_, hoid, list, err := ParseHashList(v.EContent)
			if err != nil || HashNameByOID(hoid) != p.LDSHash || len(list) != 3 {
				t.Fatalf("hash list: %v %s %d", err, hoid, len(list))
			}
			for _, e := range list {
				if !bytes.Equal(e.Hash, Digest(p.LDSHash, dgs[e.Number])) {
					t.Fatalf("DG%d hash wrong", e.Number)
				}
			}
			n++
		}
	}
	t.Logf("validated %d PKIs", n)
}

func TestLinkMasterListCardSecurity(t *testing.T) {
	for _, mk := range []func(string) Profile{DefaultProfile, DefaultRSAProfile} {
		src := NewSeedSource("issuer-selftest-link")
		oldP, err := NewPKI(src, mk("UT"))
		if err != nil {
			t.Fatal(err)
		}
		np := mk("UT")
		np.CSCAName = SimpleName("UT", "Verif Authority", "CSCA", "CSCA UT 2")
		if np.CSCAKey.Type == "rsa" {
			np.CSCAKey.Index = 2
		}
		newP, err := NewPKI(src, np)
		if err != nil {
			t.Fatal(err)
		}
		link, err := newP.IssueLinkTo(oldP, nil)
		if err != nil {
			t.Fatal(err)
		}
		checkCert(t, link, oldP.CSCAKey)
		if !bytes.Equal(link.Tmpl.SKI, newP.CSCA.Tmpl.SKI) || !bytes.Equal(link.Tmpl.AKI, oldP.CSCA.Tmpl.SKI) {
			t.Fatalf("link key identifiers")
		}
		ml, err := newP.MasterList([][]byte{oldP.CSCA.DER, newP.CSCA.DER, link.DER}, MasterListOptions{})
		if err != nil {
			t.Fatal(err)
		}
		checkCert(t, ml.MLS, newP.CSCAKey)
		v := checkCMS(t, ml.SignedData, false, ml.MLS.Key, ml.Spec.Signers[0].SigAlg)
		if v.EContentType != OidCscaMasterList || len(v.Certificates) != 2 {
			t.Fatalf("master list shape: %s %d", v.EContentType, len(v.Certificates))
		}
		cs, err := newP.SignCardSecurityDetailed(der.Set(der.Seq(der.OID("0.4.0.127.0.7.2.2.4.2.2"), der.IntFromInt64(2), der.IntFromInt64(13))), CMSOptions{})
		if err != nil {
			t.Fatal(err)
		}
		checkCMS(t, cs, false, newP.DSKey, newP.Profile.DSSig)
	}
}

func TestForgeryKnobsReallyBreakTheObject(t *testing.T) {
	src := NewSeedSource("issuer-selftest-forgery")
	pki, err := NewPKI(src, DefaultProfile("UT"))
	if err != nil {
		t.Fatal(err)
	}
	other, _ := NewKey(src, ECNamed("P-256"))
	dgs := map[int][]byte{1: []byte("dg1"), 2: []byte("dg2")}
	// signed with another key than the embedded certificate's
	sd, err := pki.SignSODDetailed(dgs, SODOptions{CMSOptions: CMSOptions{SignKey: other}})
	if err != nil {
		t.Fatal(err)
	}
	v, _ := ParseSignedData(sd.DER, true)
	if verifyStd(pki.DSKey, pki.Profile.DSSig, "sha256", v.Signers[0].SignedAttrs, v.Signers[0].Signature) == nil {
		t.Fatalf("wrong-key signature verifies under the DS key")
	}
	if verifyStd(other, pki.Profile.DSSig, "sha256", v.Signers[0].SignedAttrs, v.Signers[0].Signature) != nil {
		t.Fatalf("wrong-key signature does not verify under the other key")
	}
	// tampered content after signing
	sd, _ = pki.SignSODDetailed(dgs, SODOptions{CMSOptions: CMSOptions{Mutate: func(s *CMSSpec) {
		s.EmitEContent = append([]byte{}, s.EContent...)
		s.EmitEContent[len(s.EmitEContent)-1] ^= 1
	}}})
	v, _ = ParseSignedData(sd.DER, true)
	if bytes.Equal(v.Signers[0].MessageDigest, Digest("sha256", v.EContent)) {
		t.Fatalf("tampered content still matches the digest")
	}
	// wrong messageDigest signed by the genuine DS
	sd, _ = pki.SignSODDetailed(dgs, SODOptions{CMSOptions: CMSOptions{Mutate: func(s *CMSSpec) { s.Signers[0].MessageDigest = make([]byte, 32) }}})
	v, _ = ParseSignedData(sd.DER, true)
	if verifyStd(pki.DSKey, pki.Profile.DSSig, "sha256", v.Signers[0].SignedAttrs, v.Signers[0].Signature) != nil {
		t.Fatalf("issuer-error object must carry a VALID signature over the wrong digest")
	}
	if bytes.Equal(v.Signers[0].MessageDigest, Digest("sha256", v.EContent)) {
		t.Fatalf("digest not wrong")
	}
	// time forms
	if b := EncodeTime(time.Date(2050, 1, 1, 0, 0, 0, 0, time.UTC), TimeAuto); b[0] != der.TagGeneralizedTime {
		t.Fatalf("2050 must be GeneralizedTime")
	}
	if b := EncodeTime(time.Date(2049, 12, 31, 23, 59, 59, 0, time.UTC), TimeAuto); b[0] != der.TagUTCTime {
		t.Fatalf("2049 must be UTCTime")
	}
}

func TestDeterminism(t *testing.T) {
	mk := func() []byte {
		src := NewSeedSource("issuer-selftest-determinism")
		pki, err := NewPKI(src, DefaultProfile("UT"))
		if err != nil {
			t.Fatal(err)
		}
		sod, err := pki.SignSOD(map[int][]byte{1: []byte("a")}, SODOptions{})
		if err != nil {
			t.Fatal(err)
		}
		return append(append([]byte{}, pki.CSCA.DER...), sod...)
	}
	if !bytes.Equal(mk(), mk()) {
		t.Fatalf("generator is not a pure function of options and source")
	}
}
