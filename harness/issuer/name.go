package issuer

import (
	"strings"

	"verifharness/ref/der"
)

// Attribute type OIDs of distinguished names.
const (
	OidCountry      = "2.5.4.6"
	OidOrganization = "2.5.4.10"
	OidOrgUnit      = "2.5.4.11"
	OidCommonName   = "2.5.4.3"
	OidSerialNumber = "2.5.4.5"
	OidLocality     = "2.5.4.7"
	OidState        = "2.5.4.8"
)

// StrType is the ASN.1 string type of a name attribute value.
type StrType int

const (
	Printable StrType = iota
	UTF8
	BMP
	T61
	IA5
)

func (t StrType) String() string {
	return [...]string{"printable", "utf8", "bmp", "t61", "ia5"}[t]
}

// ATV is one AttributeTypeAndValue.  Raw, when set, is used as the complete
// value TLV instead of (Type, Value).
type ATV struct {
	OID   string
	Value string
	Type  StrType
	Raw   []byte
}

// RDN is one RelativeDistinguishedName (multi-valued when it has more than
// one ATV; encoded as a DER-sorted SET).
type RDN []ATV

// Name is an RDNSequence.
type Name []RDN

func (a ATV) der() []byte {
	v := a.Raw
	if v == nil {
		switch a.Type {
		case Printable:
			v = der.PrintableUnchecked(a.Value)
		case UTF8:
			v = der.UTF8(a.Value)
		case BMP:
			v = der.BMP(a.Value)
		case T61:
			v = der.T61(a.Value)
		case IA5:
			v = der.IA5(a.Value)
		}
	}
	return der.Seq(der.OID(a.OID), v)
}

// DER encodes the name.
func (n Name) DER() []byte {
	var rdns [][]byte
	for _, r := range n {
		var atvs [][]byte
		for _, a := range r {
			atvs = append(atvs, a.der())
		}
		rdns = append(rdns, der.SetSorted(atvs...))
	}
	return der.Seq(rdns...)
}

// Country returns the value of the first countryName attribute ("" if none).
func (n Name) Country() string {
	for _, r := range n {
		for _, a := range r {
			if a.OID == OidCountry {
				return a.Value
			}
		}
	}
	return ""
}

// Clone makes a deep copy.
func (n Name) Clone() Name {
	out := make(Name, len(n))
	for i, r := range n {
		out[i] = append(RDN(nil), r...)
	}
	return out
}

// SimpleName builds C=country, O=org, [OU=ou,] CN=cn with PrintableStrings
// (the ICAO 9303-12 recommendation); empty parts are left out.
func SimpleName(country, org, ou, cn string) Name {
	var n Name
	add := func(oid, v string) {
		if v != "" {
			n = append(n, RDN{{OID: oid, Value: v}})
		}
	}
	add(OidCountry, country)
	add(OidOrganization, org)
	add(OidOrgUnit, ou)
	add(OidCommonName, cn)
	return n
}

// NameVariant describes a re-encoding of a name that leaves its meaning
// unchanged under the RFC 5280 section 7.1 comparison rules.
type NameVariant struct {
	Reverse   bool    // reverse the order of the RDNs
	Rotate    int     // then rotate the RDNs left by this many places
	Retype    bool    // re-encode every non-country value with Type
	Type      StrType // target of Retype
	UpperCase bool    // upper-case the values (country excluded: it stays as is)
	LowerCase bool    // lower-case the values (country excluded)
	Spaces    bool    // add leading/trailing blanks and double every inner blank (country excluded)
	Merge     bool    // merge the last two RDNs into one multi-valued RDN
}

// Identity reports whether the variant changes nothing.
func (v NameVariant) Identity() bool { return v == NameVariant{} }

// Apply returns the re-encoded name.
func (v NameVariant) Apply(n Name) Name {
	out := n.Clone()
	if v.Reverse {
		for i, j := 0, len(out)-1; i < j; i, j = i+1, j-1 {
			out[i], out[j] = out[j], out[i]
		}
	}
	if len(out) > 0 && v.Rotate%len(out) != 0 {
		k := v.Rotate % len(out)
		out = append(out[k:], out[:k]...)
	}
	for _, r := range out {
		for i := range r {
			a := &r[i]
			if a.OID == OidCountry || a.Raw != nil {
				continue
			}
			if v.Retype {
				a.Type = v.Type
			}
			if v.UpperCase {
				a.Value = strings.ToUpper(a.Value)
			}
			if v.LowerCase {
				a.Value = strings.ToLower(a.Value)
			}
			if v.Spaces {
				a.Value = " " + strings.ReplaceAll(a.Value, " ", "  ") + "  "
			}
		}
	}
	if v.Merge && len(out) >= 2 {
		l := len(out)
		m := append(append(RDN{}, out[l-2]...), out[l-1]...)
		out = append(out[:l-2], m)
	}
	return out
}
