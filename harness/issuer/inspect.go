package issuer

import (
	"errors"
	"fmt"
	"math/big"
	"strconv"
	"strings"
	"time"

	"verifharness/ref/ber"
	"verifharness/ref/der"
)

// This file is the harness's own (strict, ref/ber based) reader for the
// objects the generator emits.  It serves two purposes: the generator's
// self-validation (issuer tests verify every emitted object with the standard
// library) and the oracles of the soundness checks, which need to look into
// certificates / SignedData without trusting the code under test.

// DecodeOID turns OID content octets into dotted form.
func DecodeOID(b []byte) (string, error) {
	if len(b) == 0 || b[len(b)-1]&0x80 != 0 {
		return "", errors.New("bad OID")
	}
	var arcs []*big.Int
	v := new(big.Int)
	for i, c := range b {
		if v.Sign() == 0 && c == 0x80 && (i == 0 || b[i-1]&0x80 == 0) {
			return "", errors.New("bad OID: padded arc")
		}
		v.Lsh(v, 7).Or(v, big.NewInt(int64(c&0x7f)))
		if c&0x80 == 0 {
			arcs = append(arcs, v)
			v = new(big.Int)
		}
	}
	first := arcs[0]
	var sb strings.Builder
	switch {
	case first.Cmp(big.NewInt(40)) < 0:
		sb.WriteString("0." + first.String())
	case first.Cmp(big.NewInt(80)) < 0:
		sb.WriteString("1." + new(big.Int).Sub(first, big.NewInt(40)).String())
	default:
		sb.WriteString("2." + new(big.Int).Sub(first, big.NewInt(80)).String())
	}
	for _, a := range arcs[1:] {
		sb.WriteString("." + a.String())
	}
	return sb.String(), nil
}

func parseOne(b []byte) (*ber.Node, error) {
	nodes, err := ber.Parse(b, ber.Options{})
	if err != nil {
		return nil, err
	}
	if len(nodes) != 1 {
		return nil, fmt.Errorf("expected one element, got %d", len(nodes))
	}
	return nodes[0], nil
}

func raw(in []byte, n *ber.Node) []byte { return in[n.Start:n.End] }

func oidOf(n *ber.Node) (string, error) {
	if n.Tag != der.TagOID {
		return "", fmt.Errorf("OID expected, tag %x", n.Tag)
	}
	return DecodeOID(n.Value)
}

func intOf(n *ber.Node) (*big.Int, error) {
	if n.Tag != der.TagInteger || len(n.Value) == 0 {
		return nil, errors.New("INTEGER expected")
	}
	v := new(big.Int).SetBytes(n.Value)
	if n.Value[0]&0x80 != 0 {
		v.Sub(v, new(big.Int).Lsh(big.NewInt(1), uint(8*len(n.Value))))
	}
	return v, nil
}

// ParseTime decodes a UTCTime / GeneralizedTime element (Z form with seconds).
func ParseTime(tag uint32, content []byte) (time.Time, error) {
	s := string(content)
	switch tag {
	case der.TagUTCTime:
		t, err := time.Parse("060102150405Z", s)
		if err != nil {
			return time.Time{}, err
		}
		if t.Year() >= 2050 { // RFC 5280: YY >= 50 means 19YY
			t = t.AddDate(-100, 0, 0)
		}
		return t, nil
	case der.TagGeneralizedTime:
		return time.Parse("20060102150405Z", s)
	}
	return time.Time{}, fmt.Errorf("not a Time (tag %x)", tag)
}

// ExtInfo is a parsed extension.
type ExtInfo struct {
	OID      string
	Critical bool
	Value    []byte
}

// CertInfo is the harness's view of a certificate.
type CertInfo struct {
	DER, TBS        []byte
	Version         int
	Serial          *big.Int
	TBSSigAlgOID    string
	IssuerDER       []byte
	SubjectDER      []byte
	IssuerCountry   string // first countryName of the issuer
	SubjectCountry  string
	NotBefore       time.Time
	NotAfter        time.Time
	SPKI            []byte
	Extensions      []ExtInfo
	SigAlgOID       string
	SigAlgParams    []byte // complete TLV or nil
	Signature       []byte
	SKI, AKI        []byte
	HasBC, IsCA     bool
	PathLen         int // -1 = absent
	HasKU           bool
	KeyUsage        []byte // bit string content (without unused-bit octet)
	HasEKU          bool
	EKUCritical     bool
	EKU             []string
	UnknownCritical []string
}

// KU reports whether key-usage bit i is set.
func (c *CertInfo) KU(i int) bool {
	return c.HasKU && i/8 < len(c.KeyUsage) && c.KeyUsage[i/8]&(0x80>>uint(i%8)) != 0
}

var knownExtensions = map[string]bool{
	OidExtAKI: true, OidExtSKI: true, OidExtKeyUsage: true, OidExtBasicConstraints: true, OidExtEKU: true,
	OidExtPrivKeyUsage: true, OidExtSubjectAltName: true, OidExtIssuerAltName: true, OidExtCRLDP: true, OidExtCertPolicies: true,
}

// nameCountry returns the first countryName of a Name.  The Name must be well
// formed (SEQUENCE of non-empty SETs of two-element SEQUENCEs starting with an
// OID); anything else is an error, so that the harness never judges a
// certificate whose name it reads differently from another parser.
func nameCountry(n *ber.Node) (string, error) {
	if n.Tag != der.TagSequence {
		return "", errors.New("Name: SEQUENCE expected")
	}
	country, found := "", false
	for _, rdn := range n.Children {
		if rdn.Tag != der.TagSet || len(rdn.Children) == 0 {
			return "", errors.New("RDN: non-empty SET expected")
		}
		for _, atv := range rdn.Children {
			if atv.Tag != der.TagSequence || len(atv.Children) != 2 || atv.Children[1].Constructed {
				return "", errors.New("AttributeTypeAndValue: SEQUENCE { OID, primitive value } expected")
			}
			o, err := oidOf(atv.Children[0])
			if err != nil {
				return "", err
			}
			if o == OidCountry && !found {
				country, found = string(atv.Children[1].Value), true
			}
		}
	}
	return country, nil
}

// ParseCertificate reads a certificate strictly (one element, all consumed).
func ParseCertificate(in []byte) (*CertInfo, error) {
	root, err := parseOne(in)
	if err != nil {
		return nil, err
	}
	if root.Tag != der.TagSequence || len(root.Children) != 3 {
		return nil, errors.New("Certificate: SEQUENCE of 3 expected")
	}
	c := &CertInfo{DER: in, PathLen: -1}
	tbs, alg, sig := root.Children[0], root.Children[1], root.Children[2]
	c.TBS = raw(in, tbs)
	if alg.Tag != der.TagSequence || len(alg.Children) < 1 {
		return nil, errors.New("signatureAlgorithm")
	}
	if c.SigAlgOID, err = oidOf(alg.Children[0]); err != nil {
		return nil, err
	}
	if len(alg.Children) > 1 {
		c.SigAlgParams = raw(in, alg.Children[1])
	}
	if sig.Tag != der.TagBitString || len(sig.Value) < 1 {
		return nil, errors.New("signatureValue")
	}
	c.Signature = sig.Value[1:]
	k := tbs.Children
	i := 0
	c.Version = 1
	if len(k) > 0 && k[0].Tag == 0xA0 {
		if len(k[0].Children) != 1 {
			return nil, errors.New("version")
		}
		v, err := intOf(k[0].Children[0])
		if err != nil {
			return nil, err
		}
		c.Version = int(v.Int64()) + 1
		i++
	}
	if len(k) < i+6 {
		return nil, errors.New("TBSCertificate too short")
	}
	if c.Serial, err = intOf(k[i]); err != nil {
		return nil, err
	}
	if k[i+1].Tag != der.TagSequence || len(k[i+1].Children) < 1 {
		return nil, errors.New("tbs signature")
	}
	if c.TBSSigAlgOID, err = oidOf(k[i+1].Children[0]); err != nil {
		return nil, err
	}
	c.IssuerDER = raw(in, k[i+2])
	if c.IssuerCountry, err = nameCountry(k[i+2]); err != nil {
		return nil, err
	}
	val := k[i+3]
	if val.Tag != der.TagSequence || len(val.Children) != 2 {
		return nil, errors.New("validity")
	}
	if c.NotBefore, err = ParseTime(val.Children[0].Tag, val.Children[0].Value); err != nil {
		return nil, err
	}
	if c.NotAfter, err = ParseTime(val.Children[1].Tag, val.Children[1].Value); err != nil {
		return nil, err
	}
	c.SubjectDER = raw(in, k[i+4])
	if c.SubjectCountry, err = nameCountry(k[i+4]); err != nil {
		return nil, err
	}
	c.SPKI = raw(in, k[i+5])
	for _, n := range k[i+6:] {
		if n.Tag != 0xA3 {
			continue
		}
		if len(n.Children) != 1 || n.Children[0].Tag != der.TagSequence {
			return nil, errors.New("extensions")
		}
		for _, e := range n.Children[0].Children {
			if e.Tag != der.TagSequence || len(e.Children) < 2 || len(e.Children) > 3 {
				return nil, errors.New("extension")
			}
			var x ExtInfo
			if x.OID, err = oidOf(e.Children[0]); err != nil {
				return nil, err
			}
			v := e.Children[len(e.Children)-1]
			if len(e.Children) == 3 {
				b := e.Children[1]
				if b.Tag != der.TagBoolean || len(b.Value) != 1 {
					return nil, errors.New("extension critical flag")
				}
				x.Critical = b.Value[0] != 0
			}
			if v.Tag != der.TagOctetString {
				return nil, errors.New("extnValue")
			}
			x.Value = v.Value
			c.Extensions = append(c.Extensions, x)
			if err := c.applyExtension(x); err != nil {
				return nil, fmt.Errorf("extension %s: %w", x.OID, err)
			}
		}
	}
	return c, nil
}

func (c *CertInfo) applyExtension(x ExtInfo) error {
	if x.Critical && !knownExtensions[x.OID] {
		c.UnknownCritical = append(c.UnknownCritical, x.OID)
	}
	switch x.OID {
	case OidExtSKI:
		if c.SKI != nil {
			return nil // first one counts
		}
		n, err := parseOne(x.Value)
		if err != nil || n.Tag != der.TagOctetString {
			return errors.New("SKI")
		}
		c.SKI = append([]byte{}, n.Value...)
	case OidExtAKI:
		if c.AKI != nil {
			return nil
		}
		n, err := parseOne(x.Value)
		if err != nil || n.Tag != der.TagSequence {
			return errors.New("AKI")
		}
		c.AKI = []byte{}
		for _, k := range n.Children {
			if k.Tag == 0x80 {
				c.AKI = append([]byte{}, k.Value...)
			}
		}
	case OidExtBasicConstraints:
		if c.HasBC {
			return nil
		}
		n, err := parseOne(x.Value)
		if err != nil || n.Tag != der.TagSequence {
			return errors.New("basicConstraints")
		}
		c.HasBC = true
		for _, k := range n.Children {
			switch k.Tag {
			case der.TagBoolean:
				c.IsCA = len(k.Value) == 1 && k.Value[0] != 0
			case der.TagInteger:
				v, err := intOf(k)
				if err != nil {
					return err
				}
				c.PathLen = int(v.Int64())
			}
		}
	case OidExtKeyUsage:
		if c.HasKU {
			return nil
		}
		n, err := parseOne(x.Value)
		if err != nil || n.Tag != der.TagBitString || len(n.Value) < 1 {
			return errors.New("keyUsage")
		}
		c.HasKU, c.KeyUsage = true, append([]byte{}, n.Value[1:]...)
	case OidExtEKU:
		if c.HasEKU {
			return nil
		}
		n, err := parseOne(x.Value)
		if err != nil || n.Tag != der.TagSequence {
			return errors.New("extKeyUsage")
		}
		c.HasEKU, c.EKUCritical = true, x.Critical
		for _, k := range n.Children {
			o, err := oidOf(k)
			if err != nil {
				return err
			}
			c.EKU = append(c.EKU, o)
		}
	}
	return nil
}

// ValidAt reports whether t lies inside [NotBefore, NotAfter] (inclusive, as
// RFC 5280 4.1.2.5 defines the validity period).
func (c *CertInfo) ValidAt(t time.Time) bool { return !t.Before(c.NotBefore) && !t.After(c.NotAfter) }

// AcceptableCA reports whether the certificate carries what ICAO 9303-12 /
// RFC 5280 require of a CSCA that issues a document signer: CA:TRUE,
// keyCertSign, no unknown critical extension, a critical extKeyUsage only with
// anyExtendedKeyUsage, and (when a time is given) validity at that time.
func (c *CertInfo) AcceptableCA(at *time.Time) (bool, string) {
	switch {
	case len(c.UnknownCritical) > 0:
		return false, "unknown critical extension " + c.UnknownCritical[0]
	case !c.HasBC || !c.IsCA:
		return false, "not a CA"
	case !c.KU(KUKeyCertSign):
		return false, "no keyCertSign"
	case c.HasEKU && c.EKUCritical && !contains(c.EKU, OidAnyEKU):
		return false, "critical extKeyUsage without anyExtendedKeyUsage"
	case at != nil && !c.ValidAt(*at):
		return false, "outside validity at " + at.UTC().Format(time.RFC3339)
	}
	return true, ""
}

func contains(l []string, s string) bool {
	for _, x := range l {
		if x == s {
			return true
		}
	}
	return false
}

// SignerInfoView is a parsed SignerInfo.
type SignerInfoView struct {
	Version       int
	SID           []byte // complete TLV
	DigestAlgOID  string
	SignedAttrs   []byte              // re-tagged as SET (31), nil when absent
	Attrs         map[string][][]byte // OID -> value TLVs (signed attributes)
	AttrOrder     []string
	SigAlgOID     string
	SigAlgParams  []byte
	Signature     []byte
	HasUnsigned   bool
	MessageDigest []byte
	ContentType   string
	SigningTime   *time.Time
}

// CMSView is a parsed SignedData.
type CMSView struct {
	Version      int
	DigestAlgs   []string
	EContentType string
	EContent     []byte
	Certificates [][]byte
	Signers      []SignerInfoView
}

// ParseSignedData reads a ContentInfo{SignedData} (BER allowed: indefinite and
// non-minimal lengths).  wrapped77 strips the EF.SOD tag first.
func ParseSignedData(in []byte, wrapped77 bool) (*CMSView, error) {
	root, err := parseOne(in)
	if err != nil {
		return nil, err
	}
	if wrapped77 {
		if root.Tag != 0x77 || len(root.Children) != 1 {
			return nil, errors.New("EF.SOD: tag 77 with one child expected")
		}
		root = root.Children[0]
	}
	if root.Tag != der.TagSequence || len(root.Children) != 2 {
		return nil, errors.New("ContentInfo")
	}
	if o, err := oidOf(root.Children[0]); err != nil || o != OidSignedData {
		return nil, errors.New("not id-signedData")
	}
	c0 := root.Children[1]
	if c0.Tag != 0xA0 || len(c0.Children) != 1 || c0.Children[0].Tag != der.TagSequence {
		return nil, errors.New("content [0]")
	}
	k := c0.Children[0].Children
	if len(k) < 4 {
		return nil, errors.New("SignedData too short")
	}
	v := &CMSView{}
	ver, err := intOf(k[0])
	if err != nil {
		return nil, err
	}
	v.Version = int(ver.Int64())
	if k[1].Tag != der.TagSet {
		return nil, errors.New("digestAlgorithms")
	}
	for _, a := range k[1].Children {
		if len(a.Children) < 1 {
			return nil, errors.New("digestAlgorithm")
		}
		o, err := oidOf(a.Children[0])
		if err != nil {
			return nil, err
		}
		v.DigestAlgs = append(v.DigestAlgs, o)
	}
	enc := k[2]
	if enc.Tag != der.TagSequence || len(enc.Children) != 2 {
		return nil, errors.New("encapContentInfo")
	}
	if v.EContentType, err = oidOf(enc.Children[0]); err != nil {
		return nil, err
	}
	e0 := enc.Children[1]
	if e0.Tag != 0xA0 || len(e0.Children) != 1 || e0.Children[0].Tag != der.TagOctetString {
		return nil, errors.New("eContent")
	}
	v.EContent = e0.Children[0].Value
	for _, n := range k[3 : len(k)-1] {
		if n.Tag == 0xA0 {
			for _, c := range n.Children {
				v.Certificates = append(v.Certificates, raw(in, c))
			}
		}
	}
	sis := k[len(k)-1]
	if sis.Tag != der.TagSet {
		return nil, errors.New("signerInfos")
	}
	for _, si := range sis.Children {
		s, err := parseSignerInfo(in, si)
		if err != nil {
			return nil, err
		}
		v.Signers = append(v.Signers, *s)
	}
	return v, nil
}

func parseSignerInfo(in []byte, si *ber.Node) (*SignerInfoView, error) {
	k := si.Children
	if si.Tag != der.TagSequence || len(k) < 5 {
		return nil, errors.New("SignerInfo")
	}
	s := &SignerInfoView{Attrs: map[string][][]byte{}}
	ver, err := intOf(k[0])
	if err != nil {
		return nil, err
	}
	s.Version = int(ver.Int64())
	s.SID = raw(in, k[1])
	if len(k[2].Children) < 1 {
		return nil, errors.New("digestAlgorithm")
	}
	if s.DigestAlgOID, err = oidOf(k[2].Children[0]); err != nil {
		return nil, err
	}
	i := 3
	if k[i].Tag == 0xA0 {
		s.SignedAttrs = der.TLV(der.TagSet, k[i].Value)
		for _, a := range k[i].Children {
			if len(a.Children) != 2 || a.Children[1].Tag != der.TagSet {
				return nil, errors.New("attribute")
			}
			o, err := oidOf(a.Children[0])
			if err != nil {
				return nil, err
			}
			s.AttrOrder = append(s.AttrOrder, o)
			for _, val := range a.Children[1].Children {
				s.Attrs[o] = append(s.Attrs[o], raw(in, val))
				switch o {
				case OidAttrMsgDigest:
					if val.Tag == der.TagOctetString && s.MessageDigest == nil {
						s.MessageDigest = val.Value
					}
				case OidAttrContentTyp:
					if s.ContentType == "" {
						s.ContentType, _ = oidOf(val)
					}
				case OidAttrSigningTim:
					if t, err := ParseTime(val.Tag, val.Value); err == nil && s.SigningTime == nil {
						s.SigningTime = &t
					}
				}
			}
		}
		i++
	}
	if len(k) < i+2 || len(k[i].Children) < 1 {
		return nil, errors.New("signatureAlgorithm")
	}
	if s.SigAlgOID, err = oidOf(k[i].Children[0]); err != nil {
		return nil, err
	}
	if len(k[i].Children) > 1 {
		s.SigAlgParams = raw(in, k[i].Children[1])
	}
	if k[i+1].Tag != der.TagOctetString {
		return nil, errors.New("signature")
	}
	s.Signature = k[i+1].Value
	s.HasUnsigned = len(k) > i+2
	return s, nil
}

// ParseHashList decodes an LDSSecurityObject: version, hash algorithm OID and
// the (number, hash) list in file order.
func ParseHashList(eContent []byte) (version int, hashOID string, list []DGHash, err error) {
	root, err := parseOne(eContent)
	if err != nil {
		return 0, "", nil, err
	}
	k := root.Children
	if root.Tag != der.TagSequence || len(k) < 3 {
		return 0, "", nil, errors.New("LDSSecurityObject")
	}
	ver, err := intOf(k[0])
	if err != nil {
		return 0, "", nil, err
	}
	if len(k[1].Children) < 1 {
		return 0, "", nil, errors.New("hashAlgorithm")
	}
	if hashOID, err = oidOf(k[1].Children[0]); err != nil {
		return 0, "", nil, err
	}
	for _, e := range k[2].Children {
		if len(e.Children) != 2 || e.Children[1].Tag != der.TagOctetString {
			return 0, "", nil, errors.New("DataGroupHash")
		}
		n, err := intOf(e.Children[0])
		if err != nil {
			return 0, "", nil, err
		}
		list = append(list, DGHash{int(n.Int64()), e.Children[1].Value})
	}
	return int(ver.Int64()), hashOID, list, nil
}

// HashNameByOID maps a digest OID back to the generator's name ("" if unknown).
func HashNameByOID(oid string) string {
	for _, n := range append([]string{"md5"}, Hashes...) {
		if HashOID(n) == oid {
			return n
		}
	}
	return ""
}

// Itoa is strconv.Itoa (kept here so callers need no extra import for labels).
func Itoa(i int) string { return strconv.Itoa(i) }

// SignedAttrsView is the harness's reading of a signed-attributes SET.
type SignedAttrsView struct {
	Order         []string
	MessageDigest []byte
	ContentType   string
	SigningTime   *time.Time
}

// ParseSignedAttrs reads the DER SET (tag 31) of signed attributes.
func ParseSignedAttrs(set []byte) (*SignedAttrsView, error) {
	root, err := parseOne(set)
	if err != nil {
		return nil, err
	}
	if root.Tag != der.TagSet {
		return nil, errors.New("signed attributes: SET expected")
	}
	v := &SignedAttrsView{}
	for _, a := range root.Children {
		if len(a.Children) != 2 || a.Children[1].Tag != der.TagSet {
			return nil, errors.New("attribute")
		}
		o, err := oidOf(a.Children[0])
		if err != nil {
			return nil, err
		}
		v.Order = append(v.Order, o)
		for _, val := range a.Children[1].Children {
			switch o {
			case OidAttrMsgDigest:
				if val.Tag == der.TagOctetString && v.MessageDigest == nil {
					v.MessageDigest = val.Value
				}
			case OidAttrContentTyp:
				if v.ContentType == "" {
					v.ContentType, _ = oidOf(val)
				}
			case OidAttrSigningTim:
				if t, err := ParseTime(val.Tag, val.Value); err == nil && v.SigningTime == nil {
					v.SigningTime = &t
				}
			}
		}
	}
	return v, nil
}
