// Package issuer is an independent issuing PKI and CMS generator for the
// verification harness: CSCA / link / document-signer / master-list-signer
// certificates built by hand (X.509 v3, every field under generator control),
// and CMS SignedData objects for EF.SOD, EF.CardSecurity and CSCA master lists,
// including every semantic forgery the soundness checks need.
//
// It imports NO gmrtd package: only the standard library and verifharness/ref/*.
// All randomness (EC private scalars, ECDSA nonces, PSS salts, serial numbers)
// comes from a caller-supplied Source, so an object is a pure function of the
// options and the source.  RSA keys come from the committed pool of
// ref/iso9796 (no key generation at run time).
//
// NOT constant time; test keys only.
package issuer

import (
	"crypto/sha256"
	"encoding/binary"
)

// Source supplies every random choice of the generator.
type Source interface {
	Bytes(n int) []byte // n octets
	Intn(n int) int     // uniform-ish integer in [0,n), n >= 1
}

// SeedSource is a deterministic Source: SHA-256 in counter mode over a seed
// string.  Use it wherever no property-based generator is at hand (fixtures,
// fuzz seeds, chip personalisation in end-to-end tests).
type SeedSource struct {
	seed []byte
	ctr  uint64
	buf  []byte
}

// NewSeedSource returns the deterministic stream for seed.
func NewSeedSource(seed string) *SeedSource { return &SeedSource{seed: []byte(seed)} }

func (s *SeedSource) Bytes(n int) []byte {
	for len(s.buf) < n {
		var c [8]byte
		binary.BigEndian.PutUint64(c[:], s.ctr)
		s.ctr++
		h := sha256.Sum256(append(append([]byte{}, s.seed...), c[:]...))
		s.buf = append(s.buf, h[:]...)
	}
	out := append([]byte(nil), s.buf[:n]...)
	s.buf = s.buf[n:]
	return out
}

func (s *SeedSource) Intn(n int) int {
	if n <= 1 {
		return 0
	}
	b := s.Bytes(8)
	return int(binary.BigEndian.Uint64(b) % uint64(n))
}
