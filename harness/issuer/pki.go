package issuer

import (
	"errors"
	"math/big"
	"time"

	"verifharness/ref/der"
)

// DefaultSigningTime is the signing time of DefaultProfile (no wall clock is
// ever consulted by this package).
var DefaultSigningTime = time.Date(2024, 6, 1, 12, 0, 0, 0, time.UTC)

// Profile describes an issuing PKI: one CSCA, one document signer.
type Profile struct {
	Country string // ISO 3166-1 alpha-2, written as countryName into every certificate

	CSCAKey KeySpec
	DSKey   KeySpec
	CSCASig SigAlg // algorithm the CSCA signs with (its own certificate, DS / link / MLS certificates)
	DSSig   SigAlg // algorithm the DS signs with (EF.SOD, EF.CardSecurity); its Hash is the signer digest
	LDSHash string // digest of the data-group hash list

	SigningTime time.Time // signing time of the security objects; zero = DefaultSigningTime

	// Validity windows; zero values = a window comfortably around SigningTime
	// (CSCA: -3y … +12y, DS: -30d … +10y).
	CSCANotBefore, CSCANotAfter time.Time
	DSNotBefore, DSNotAfter     time.Time
	TimeForm                    TimeForm

	CSCAName Name // zero = C=<Country>, O=Verif Authority, OU=CSCA, CN=CSCA <Country>
	DSName   Name // zero = C=<Country>, O=Verif Authority, OU=DS,   CN=Document Signer 1

	SerialLen int // octets of random serial numbers; 0 = 8

	// Hooks applied to the templates before signing (any field may be changed).
	CSCAMutate func(*CertTemplate)
	DSMutate   func(*CertTemplate)
}

// DefaultProfile is the fast everyday profile: ECDSA P-256 keys (named curve)
// for CSCA and DS, SHA-256 everywhere.
func DefaultProfile(country string) Profile {
	return Profile{
		Country: country,
		CSCAKey: ECNamed("P-256"), DSKey: ECNamed("P-256"),
		CSCASig: ECDSA("sha256"), DSSig: ECDSA("sha256"), LDSHash: "sha256",
	}
}

// DefaultRSAProfile is the RSA counterpart: RSA-2048 PKCS#1 v1.5 with SHA-256.
func DefaultRSAProfile(country string) Profile {
	return Profile{
		Country: country,
		CSCAKey: RSA(2048, 0), DSKey: RSA(2048, 1),
		CSCASig: PKCS1("sha256"), DSSig: PKCS1("sha256"), LDSHash: "sha256",
	}
}

// PKI is an issued hierarchy.
type PKI struct {
	Profile Profile
	CSCAKey *Key
	CSCA    *Certificate
	DSKey   *Key
	DS      *Certificate
	src     Source
	serials map[string]bool // serial numbers this CA has used (a CA never repeats one)
}

// NextSerial draws a serial number this PKI's CSCA has not used yet.
func (p *PKI) NextSerial() *big.Int {
	if p.serials == nil {
		p.serials = map[string]bool{}
	}
	v := RandomSerial(p.src, p.Profile.serialLen())
	for p.serials[v.String()] {
		v = new(big.Int).Add(v, big.NewInt(1))
	}
	p.serials[v.String()] = true
	return v
}

func (p Profile) signingTime() time.Time {
	if p.SigningTime.IsZero() {
		return DefaultSigningTime
	}
	return p.SigningTime
}

func (p Profile) serialLen() int {
	if p.SerialLen <= 0 {
		return 8
	}
	return p.SerialLen
}

func orTime(t, def time.Time) time.Time {
	if t.IsZero() {
		return def
	}
	return t
}

// CSCATemplate is the ICAO 9303-12 CSCA root profile: v3, SKI, AKI (= SKI),
// critical basicConstraints CA:TRUE pathLen 0, critical keyUsage
// keyCertSign|cRLSign.
func CSCATemplate(name Name, key *Key, notBefore, notAfter time.Time, alg SigAlg) CertTemplate {
	return CertTemplate{
		Issuer: name, Subject: name, NotBefore: notBefore, NotAfter: notAfter, SubjectKey: key,
		SKI: key.SKI(), AKI: key.SKI(),
		BasicConstraints: &BasicConstraints{CA: true, HasPath: true, PathLen: 0, Critical: true},
		KeyUsage:         &KeyUsage{Bits: []int{KUKeyCertSign, KUCRLSign}, Critical: true},
		SigAlg:           alg,
	}
}

// DSTemplate is the document-signer profile: AKI of the issuer, SKI, critical
// keyUsage digitalSignature, and the (non-critical) ICAO documentTypeList.
func DSTemplate(issuer *Certificate, name Name, key *Key, notBefore, notAfter time.Time, alg SigAlg) CertTemplate {
	return CertTemplate{
		Issuer: issuer.Tmpl.Subject, IssuerDER: issuer.Tmpl.SubjDER, Subject: name,
		NotBefore: notBefore, NotAfter: notAfter, SubjectKey: key,
		SKI: key.SKI(), AKI: issuerSKI(issuer),
		KeyUsage: &KeyUsage{Bits: []int{KUDigitalSignature}, Critical: true},
		Extra:    []Extension{{OID: OidExtDocumentTypeList, Value: der.Seq(der.IntFromInt64(0), der.Set(der.Printable("P")))}},
		SigAlg:   alg,
	}
}

// LinkTemplate is a CSCA link certificate: the new CSCA key and name certified
// by the old CSCA (issuer = old subject, AKI = old SKI, SKI = new key).
func LinkTemplate(old *Certificate, newName Name, newKey *Key, notBefore, notAfter time.Time, alg SigAlg) CertTemplate {
	t := CSCATemplate(newName, newKey, notBefore, notAfter, alg)
	t.Issuer, t.IssuerDER = old.Tmpl.Subject, old.Tmpl.SubjDER
	t.AKI = issuerSKI(old)
	return t
}

// MLSTemplate is the master-list-signer profile: critical keyUsage
// digitalSignature and critical extKeyUsage id-icao-cscaMasterListSigningKey.
func MLSTemplate(issuer *Certificate, name Name, key *Key, notBefore, notAfter time.Time, alg SigAlg) CertTemplate {
	t := DSTemplate(issuer, name, key, notBefore, notAfter, alg)
	t.Extra = nil
	t.ExtKeyUsage = &ExtKeyUsage{OIDs: []string{OidEKUMasterListSigner}, Critical: true}
	return t
}

func issuerSKI(c *Certificate) []byte {
	if c.Tmpl.SKI != nil {
		return c.Tmpl.SKI
	}
	return c.Key.SKI()
}

// NewPKI issues the CSCA and the DS of a profile.
func NewPKI(src Source, p Profile) (*PKI, error) {
	if p.Country == "" {
		return nil, errors.New("issuer: profile without country")
	}
	t := p.signingTime()
	ck, err := NewKey(src, p.CSCAKey)
	if err != nil {
		return nil, err
	}
	dk, err := NewKey(src, p.DSKey)
	if err != nil {
		return nil, err
	}
	cname := p.CSCAName
	if cname == nil {
		cname = SimpleName(p.Country, "Verif Authority", "CSCA", "CSCA "+p.Country)
	}
	dname := p.DSName
	if dname == nil {
		dname = SimpleName(p.Country, "Verif Authority", "DS", "Document Signer 1")
	}
	ct := CSCATemplate(cname, ck, orTime(p.CSCANotBefore, t.AddDate(-3, 0, 0)), orTime(p.CSCANotAfter, t.AddDate(12, 0, 0)), p.CSCASig)
	pki := &PKI{Profile: p, CSCAKey: ck, DSKey: dk, src: src}
	ct.Serial, ct.TimeForm = pki.NextSerial(), p.TimeForm
	if p.CSCAMutate != nil {
		p.CSCAMutate(&ct)
	}
	csca, err := CreateCertificate(src, ct, ck)
	if err != nil {
		return nil, err
	}
	pki.CSCA = csca
	pki.DS, err = pki.IssueDS(dk, dname, p.DSMutate)
	if err != nil {
		return nil, err
	}
	return pki, nil
}

// IssueDS issues another document-signer certificate under the CSCA.
func (p *PKI) IssueDS(key *Key, name Name, mutate func(*CertTemplate)) (*Certificate, error) {
	t := p.Profile.signingTime()
	dt := DSTemplate(p.CSCA, name, key, orTime(p.Profile.DSNotBefore, t.AddDate(0, 0, -30)), orTime(p.Profile.DSNotAfter, t.AddDate(10, 0, 0)), p.Profile.CSCASig)
	dt.Serial, dt.TimeForm = p.NextSerial(), p.Profile.TimeForm
	if mutate != nil {
		mutate(&dt)
	}
	return CreateCertificate(p.src, dt, p.CSCAKey)
}

// ReissueCSCA issues another self-signed certificate for the SAME CSCA key and
// name (a re-issued / cross-signed anchor with the same key identifier).
func (p *PKI) ReissueCSCA(mutate func(*CertTemplate)) (*Certificate, error) {
	ct := p.CSCA.Tmpl
	ct.Serial = p.NextSerial()
	if mutate != nil {
		mutate(&ct)
	}
	return CreateCertificate(p.src, ct, p.CSCAKey)
}

// IssueLinkTo issues a link certificate that certifies THIS PKI's CSCA key
// under the key of an older CSCA (old signs; subject = this CSCA's name).
func (p *PKI) IssueLinkTo(old *PKI, mutate func(*CertTemplate)) (*Certificate, error) {
	lt := LinkTemplate(old.CSCA, p.CSCA.Tmpl.Subject, p.CSCAKey, p.CSCA.Tmpl.NotBefore, p.CSCA.Tmpl.NotAfter, old.Profile.CSCASig)
	lt.Serial, lt.TimeForm = old.NextSerial(), p.Profile.TimeForm
	if mutate != nil {
		mutate(&lt)
	}
	return CreateCertificate(p.src, lt, old.CSCAKey)
}

// Source returns the randomness source the PKI was made with.
func (p *PKI) Source() Source { return p.src }

// TrustAnchorsDER returns the certificates a verifier must trust: the CSCA.
func (p *PKI) TrustAnchorsDER() [][]byte { return [][]byte{p.CSCA.DER} }

// ---------------------------------------------------------------- security objects

// CMSOptions are the SignedData choices common to all objects.  The zero value
// is the plain ICAO form: issuerAndSerialNumber, DER-ordered signed attributes
// contentType + signingTime + messageDigest, the DS certificate embedded, DER.
type CMSOptions struct {
	Signer  *Certificate // nil = the PKI's DS
	SignKey *Key         // nil = the signer certificate's key
	SigAlg  *SigAlg      // nil = Profile.DSSig

	SID     SIDForm
	SIDName *NameVariant // re-encode the issuer name inside the SID

	NoSigningTime   bool
	SigningTime     *time.Time // nil = Profile.SigningTime
	SigningTimeForm TimeForm
	AttrOrder       AttrOrder
	ExtraSigned     []Attribute
	Unsigned        []Attribute
	DigestNull      bool

	ExtraCerts  [][]byte // further embedded certificates
	ExtrasFirst bool     // put them before the signer certificate
	Encoding    Encoding
	SDVersion   int

	Mutate func(*CMSSpec) // last word before building (forgeries)
}

func (p *PKI) cmsSpec(eType string, eContent []byte, o CMSOptions, wrap77 bool) CMSSpec {
	cert := o.Signer
	if cert == nil {
		cert = p.DS
	}
	alg := p.Profile.DSSig
	if o.SigAlg != nil {
		alg = *o.SigAlg
	}
	s := Signer{Cert: cert, Key: o.SignKey, SigAlg: alg, SID: o.SID, Order: o.AttrOrder,
		ExtraSigned: o.ExtraSigned, Unsigned: o.Unsigned, DigestNull: o.DigestNull, SigningTimeForm: o.SigningTimeForm}
	if o.SIDName != nil {
		s.SIDIssuer = o.SIDName.Apply(cert.Tmpl.Issuer).DER()
	}
	if !o.NoSigningTime {
		t := p.Profile.signingTime()
		if o.SigningTime != nil {
			t = *o.SigningTime
		}
		s.SigningTime = &t
	}
	certs := [][]byte{cert.DER}
	if o.ExtrasFirst {
		certs = append(append([][]byte{}, o.ExtraCerts...), cert.DER)
	} else {
		certs = append(certs, o.ExtraCerts...)
	}
	spec := CMSSpec{EContentType: eType, EContent: eContent, Version: o.SDVersion, DigestNull: o.DigestNull,
		Certificates: certs, Signers: []Signer{s}, Encoding: o.Encoding, Wrap77: wrap77}
	if o.Mutate != nil {
		o.Mutate(&spec)
	}
	return spec
}

// SODOptions are the EF.SOD choices.
type SODOptions struct {
	CMSOptions
	LDSVersion     int    // 0 or 1
	LDSVersionStr  string // version 1: "" = "0108"
	UnicodeVersion string // version 1: "" = "040000"
	HashAlg        string // "" = Profile.LDSHash
	HashNull       bool   // NULL parameters in the hash AlgorithmIdentifier
	EContentType   string // "" = id-icao-mrtd-security-ldsSecurityObject

	ExtraHashes map[int][]byte // entries for data groups that are on the chip but not supplied (e.g. DG3)
	Override    map[int][]byte // replace the hash of a data group (a wrong list)
	Omit        []int          // leave these data groups out of the list
	NoOuter77   bool           // emit the bare ContentInfo
	// HashOrder: 0 ascending data group numbers; 1 descending; 2 rotated by one; 3 highest number first, rest ascending
	HashOrder int
}

// SignSODDetailed builds EF.SOD for the given data-group files and returns the
// object with its authenticated parts.
func (p *PKI) SignSODDetailed(dgs map[int][]byte, o SODOptions) (*SignedData, error) {
	h := o.HashAlg
	if h == "" {
		h = p.Profile.LDSHash
	}
	all := map[int][]byte{}
	for n, b := range dgs {
		all[n] = Digest(h, b)
	}
	for n, v := range o.ExtraHashes {
		all[n] = v
	}
	for n, v := range o.Override {
		all[n] = v
	}
	for _, n := range o.Omit {
		delete(all, n)
	}
	var list []DGHash
	for n := 1; n <= 16; n++ {
		if v, ok := all[n]; ok {
			list = append(list, DGHash{n, v})
		}
	}
	switch n := len(list); {
	case n < 2:
	case o.HashOrder == 1:
		for i, j := 0, n-1; i < j; i, j = i+1, j-1 {
			list[i], list[j] = list[j], list[i]
		}
	case o.HashOrder == 2:
		list = append(append([]DGHash{}, list[1:]...), list[0])
	case o.HashOrder == 3:
		list = append([]DGHash{list[n-1]}, list[:n-1]...)
	}
	lv, uv := o.LDSVersionStr, o.UnicodeVersion
	if lv == "" {
		lv = "0108"
	}
	if uv == "" {
		uv = "040000"
	}
	eType := o.EContentType
	if eType == "" {
		eType = OidLDSSecurityObject
	}
	content := LDSSecurityObject(o.LDSVersion, h, o.HashNull, list, lv, uv)
	return BuildSignedData(p.src, p.cmsSpec(eType, content, o.CMSOptions, !o.NoOuter77))
}

// SignSOD is SignSODDetailed returning only the file bytes.
func (p *PKI) SignSOD(dgs map[int][]byte, o SODOptions) ([]byte, error) {
	sd, err := p.SignSODDetailed(dgs, o)
	if err != nil {
		return nil, err
	}
	return sd.DER, nil
}

// SignCardSecurityDetailed builds EF.CardSecurity around a SecurityInfos SET
// (see verifharness/lds).
func (p *PKI) SignCardSecurityDetailed(secInfosDER []byte, o CMSOptions) (*SignedData, error) {
	return BuildSignedData(p.src, p.cmsSpec(OidCardSecurityObject, secInfosDER, o, false))
}

// SignCardSecurity is SignCardSecurityDetailed returning only the file bytes.
func (p *PKI) SignCardSecurity(secInfosDER []byte, o CMSOptions) ([]byte, error) {
	sd, err := p.SignCardSecurityDetailed(secInfosDER, o)
	if err != nil {
		return nil, err
	}
	return sd.DER, nil
}

// MasterListOptions are the master-list choices.
type MasterListOptions struct {
	CMSOptions
	MLSKey  KeySpec             // zero = the DS key spec of the profile
	MLSName Name                // zero = default
	MLSCert func(*CertTemplate) // hook on the master-list-signer template
}

// MasterList is a signed CSCA master list.
type MasterList struct {
	*SignedData
	MLS     *Certificate // the master-list signer certificate (embedded)
	RootDER []byte       // the certificate to hand to the verifier as root: the CSCA
	Certs   [][]byte     // the listed certificates (as given)
}

// freeSpec returns a key spec of the same family as like that is neither the
// CSCA's nor the DS's pool key (EC specs always give fresh key material).
func (p *PKI) freeSpec(like KeySpec) KeySpec {
	if like.Type != "rsa" {
		return like
	}
	for _, bits := range []int{like.Bits, 2048, 1536} {
		ks := RSAPoolKeys(bits)
		for i := range ks {
			k := ks[i]
			if (p.CSCAKey.RSA == nil || p.CSCAKey.RSA.N.Cmp(k.N) != 0) && (p.DSKey.RSA == nil || p.DSKey.RSA.N.Cmp(k.N) != 0) {
				return RSA(bits, i)
			}
		}
	}
	return like
}

// MasterList signs a list of CSCA certificates with a fresh master-list signer
// issued by the PKI's CSCA (ICAO 9303-12 section 9).
func (p *PKI) MasterList(certs [][]byte, o MasterListOptions) (*MasterList, error) {
	spec := o.MLSKey
	if spec.Type == "" {
		spec = p.freeSpec(p.Profile.DSKey)
	}
	key, err := NewKey(p.src, spec)
	if err != nil {
		return nil, err
	}
	name := o.MLSName
	if name == nil {
		name = SimpleName(p.Profile.Country, "Verif Authority", "MLS", "Master List Signer")
	}
	t := p.Profile.signingTime()
	mt := MLSTemplate(p.CSCA, name, key, t.AddDate(0, 0, -10), t.AddDate(1, 0, 0), p.Profile.CSCASig)
	mt.Serial, mt.TimeForm = p.NextSerial(), p.Profile.TimeForm
	if o.MLSCert != nil {
		o.MLSCert(&mt)
	}
	mls, err := CreateCertificate(p.src, mt, p.CSCAKey)
	if err != nil {
		return nil, err
	}
	co := o.CMSOptions
	if co.Signer == nil {
		co.Signer = mls
	}
	if co.SigAlg == nil {
		a := p.Profile.DSSig
		if !a.Fits(key) {
			a = DefaultSigAlg(spec, a.Hash)
		}
		co.SigAlg = &a
	}
	if co.ExtraCerts == nil {
		co.ExtraCerts = [][]byte{p.CSCA.DER} // ICAO: the CSCA certificate is included as well
	}
	sd, err := BuildSignedData(p.src, p.cmsSpec(OidCscaMasterList, CscaMasterListContent(certs), co, false))
	if err != nil {
		return nil, err
	}
	return &MasterList{SignedData: sd, MLS: mls, RootDER: p.CSCA.DER, Certs: certs}, nil
}
