package issuer

import (
	"fmt"

	"verifharness/ref/der"
	"verifharness/ref/mrz"
)

// CountryCode pairs the ISO 3166-1 alpha-2 code written into certificates with
// the issuing-state code written into the MRZ (alpha-3, or "D" for Germany).
type CountryCode struct{ Alpha2, MRZ string }

// Countries is a small list of real issuing states (a verifier resolves the MRZ
// code to the alpha-2 code through its ISO 3166 table, so invented codes such
// as UTO cannot be used for documents that must verify).
var Countries = []CountryCode{
	{"DE", "D"}, {"FR", "FRA"}, {"NL", "NLD"}, {"GB", "GBR"}, {"US", "USA"}, {"JP", "JPN"},
	{"NZ", "NZL"}, {"ID", "IDN"}, {"CH", "CHE"}, {"SE", "SWE"}, {"BR", "BRA"}, {"ZA", "ZAF"},
}

// MRZCode returns the MRZ issuing-state code for an alpha-2 code of Countries.
func MRZCode(alpha2 string) string {
	for _, c := range Countries {
		if c.Alpha2 == alpha2 {
			return c.MRZ
		}
	}
	panic("issuer: country " + alpha2 + " is not in the list")
}

const mrzLetters = "ABCDEFGHIJKLMNOPQRSTUVWXYZ"
const mrzAlnum = "ABCDEFGHIJKLMNOPQRSTUVWXYZ0123456789"

func pick(src Source, alphabet string, n int) string {
	b := make([]byte, n)
	for i := range b {
		b[i] = alphabet[src.Intn(len(alphabet))]
	}
	return string(b)
}

// BuildDG1 makes a DG1 file (61 { 5F1F MRZ }) for the issuing state with random
// holder data; layout is "TD1", "TD2" or "TD3".  The MRZ is built by ref/mrz
// (all check digits correct).
func BuildDG1(src Source, alpha2, layout string) ([]byte, string, error) {
	return BuildDG1State(src, MRZCode(alpha2), layout)
}

// BuildDG1State is BuildDG1 for an explicit three-letter issuing state / organisation code
// of the MRZ (ICAO 9303-3 section 5), which need not correspond to an ISO 3166 country.
func BuildDG1State(src Source, state, layout string) ([]byte, string, error) {
	code := "P"
	if layout != "TD3" {
		code = "I"
	}
	f := mrz.Fields{
		Layout: layout, DocCode: code, Issuer: state, Nationality: state,
		Surname: pick(src, mrzLetters, 3+src.Intn(8)), Given: pick(src, mrzLetters, 2+src.Intn(7)),
		DocNo:  pick(src, mrzAlnum, 9),
		DOB:    fmt.Sprintf("%02d%02d%02d", 40+src.Intn(59), 1+src.Intn(12), 1+src.Intn(28)),
		Sex:    []string{"M", "F", "<"}[src.Intn(3)],
		Expiry: fmt.Sprintf("%02d%02d%02d", 25+src.Intn(10), 1+src.Intn(12), 1+src.Intn(28)),
	}
	m, err := mrz.Build(f)
	if err != nil {
		return nil, "", err
	}
	return der.TLV(0x61, der.TLV(0x5F1F, []byte(m))), m, nil
}
