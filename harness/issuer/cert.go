package issuer

import (
	"errors"
	"math/big"
	"time"

	"verifharness/ref/der"
)

// Extension OIDs.
const (
	OidExtSKI              = "2.5.29.14"
	OidExtKeyUsage         = "2.5.29.15"
	OidExtPrivKeyUsage     = "2.5.29.16"
	OidExtSubjectAltName   = "2.5.29.17"
	OidExtIssuerAltName    = "2.5.29.18"
	OidExtBasicConstraints = "2.5.29.19"
	OidExtCRLDP            = "2.5.29.31"
	OidExtCertPolicies     = "2.5.29.32"
	OidExtAKI              = "2.5.29.35"
	OidExtEKU              = "2.5.29.37"
	OidAnyEKU              = "2.5.29.37.0"
	OidEKUMasterListSigner = "2.23.136.1.1.3"
	OidExtDocumentTypeList = "2.23.136.1.1.6.2"
	OidExtNameChange       = "2.23.136.1.1.6.1"
	OidExtUnknown          = "1.3.6.1.4.1.55555.1.1" // an extension nobody knows
)

// Key usage bit numbers (RFC 5280 4.2.1.3).
const (
	KUDigitalSignature = 0
	KUNonRepudiation   = 1
	KUKeyEncipherment  = 2
	KUKeyCertSign      = 5
	KUCRLSign          = 6
)

// TimeForm selects the ASN.1 type of a Time value.
type TimeForm int

const (
	TimeAuto        TimeForm = iota // RFC 5280: UTCTime through 2049, GeneralizedTime from 2050
	TimeUTC                         // force UTCTime (only meaningful for 1950..2049)
	TimeGeneralized                 // force GeneralizedTime
)

// EncodeTime encodes t in the chosen form.
func EncodeTime(t time.Time, f TimeForm) []byte {
	switch f {
	case TimeUTC:
		return der.UTCTime(t)
	case TimeGeneralized:
		return der.GeneralizedTime(t)
	}
	return der.Time(t)
}

// Extension is a raw certificate extension (Value = the DER inside extnValue).
type Extension struct {
	OID      string
	Critical bool
	Value    []byte
}

func (e Extension) der() []byte {
	if e.Critical {
		return der.Seq(der.OID(e.OID), der.Bool(true), der.OctetString(e.Value))
	}
	return der.Seq(der.OID(e.OID), der.OctetString(e.Value))
}

// BasicConstraints extension content.
type BasicConstraints struct {
	CA       bool
	PathLen  int // used when HasPath
	HasPath  bool
	Critical bool
}

// KeyUsage extension content: the set bit numbers.
type KeyUsage struct {
	Bits     []int
	Critical bool
}

// ExtKeyUsage extension content.
type ExtKeyUsage struct {
	OIDs     []string
	Critical bool
}

// KeyUsageBits encodes a named-bit BIT STRING in DER (trailing zero bits removed).
func KeyUsageBits(bits []int) []byte {
	max := -1
	for _, b := range bits {
		if b > max {
			max = b
		}
	}
	if max < 0 {
		return der.BitString(nil, 0)
	}
	buf := make([]byte, max/8+1)
	for _, b := range bits {
		buf[b/8] |= 0x80 >> uint(b%8)
	}
	return der.BitString(buf, 7-max%8)
}

// CertTemplate describes a certificate completely.  Zero values give a plain
// v3 certificate without extensions; the constructors in pki.go fill in the
// ICAO 9303-12 profiles.
type CertTemplate struct {
	Version   int // 0 => v3; 1, 2, 3 literal
	Serial    *big.Int
	Issuer    Name
	Subject   Name
	IssuerDER []byte // overrides Issuer when set (complete Name TLV)
	SubjDER   []byte // overrides Subject when set
	NotBefore time.Time
	NotAfter  time.Time
	TimeForm  TimeForm

	SubjectKey *Key // the certified public key

	SKI           []byte // subject key identifier value; nil => extension absent
	AKI           []byte // authority key identifier keyIdentifier; nil and !AKIIssuerSerial => extension absent
	AKIExtra      bool   // also write authorityCertIssuer + authorityCertSerialNumber
	AKIIssuerName Name
	AKISerial     *big.Int

	BasicConstraints *BasicConstraints
	KeyUsage         *KeyUsage
	ExtKeyUsage      *ExtKeyUsage
	Extra            []Extension // appended after the standard ones
	ExtOrder         []string    // optional: OIDs in the order they are to be written (others keep their place after)

	SigAlg      SigAlg  // tbsCertificate.signature and the algorithm actually used
	OuterSigAlg *SigAlg // Certificate.signatureAlgorithm if it is to differ (a defect)
}

// Certificate is an issued certificate with the material it was made from.
type Certificate struct {
	DER  []byte
	TBS  []byte
	Sig  []byte // signature BIT STRING content
	Tmpl CertTemplate
	Key  *Key // the subject's key (private part known to the generator)
}

func (t *CertTemplate) issuerDER() []byte {
	if t.IssuerDER != nil {
		return t.IssuerDER
	}
	return t.Issuer.DER()
}

func (t *CertTemplate) subjectDER() []byte {
	if t.SubjDER != nil {
		return t.SubjDER
	}
	return t.Subject.DER()
}

// Extensions returns the extension list the template describes.
func (t *CertTemplate) Extensions() []Extension {
	var ex []Extension
	if t.AKI != nil || t.AKIExtra {
		var parts [][]byte
		if t.AKI != nil {
			parts = append(parts, der.Implicit(0, false, t.AKI))
		}
		if t.AKIExtra {
			// authorityCertIssuer [1] GeneralNames { directoryName [4] EXPLICIT Name }
			parts = append(parts, der.Implicit(1, true, der.Explicit(4, t.AKIIssuerName.DER())))
			parts = append(parts, der.Implicit(2, false, der.IntContent(t.AKISerial)))
		}
		ex = append(ex, Extension{OID: OidExtAKI, Value: der.Seq(parts...)})
	}
	if t.SKI != nil {
		ex = append(ex, Extension{OID: OidExtSKI, Value: der.OctetString(t.SKI)})
	}
	if t.KeyUsage != nil {
		ex = append(ex, Extension{OID: OidExtKeyUsage, Critical: t.KeyUsage.Critical, Value: KeyUsageBits(t.KeyUsage.Bits)})
	}
	if bc := t.BasicConstraints; bc != nil {
		var parts [][]byte
		if bc.CA {
			parts = append(parts, der.Bool(true))
		}
		if bc.HasPath {
			parts = append(parts, der.IntFromInt64(int64(bc.PathLen)))
		}
		ex = append(ex, Extension{OID: OidExtBasicConstraints, Critical: bc.Critical, Value: der.Seq(parts...)})
	}
	if eku := t.ExtKeyUsage; eku != nil {
		var parts [][]byte
		for _, o := range eku.OIDs {
			parts = append(parts, der.OID(o))
		}
		ex = append(ex, Extension{OID: OidExtEKU, Critical: eku.Critical, Value: der.Seq(parts...)})
	}
	ex = append(ex, t.Extra...)
	if len(t.ExtOrder) > 0 {
		var first, rest []Extension
		used := make([]bool, len(ex))
		for _, o := range t.ExtOrder {
			for i, e := range ex {
				if !used[i] && e.OID == o {
					first = append(first, e)
					used[i] = true
					break
				}
			}
		}
		for i, e := range ex {
			if !used[i] {
				rest = append(rest, e)
			}
		}
		ex = append(first, rest...)
	}
	return ex
}

// TBSCertificate returns the DER to-be-signed part.
func (t *CertTemplate) TBSCertificate() ([]byte, error) {
	if t.SubjectKey == nil || t.Serial == nil {
		return nil, errors.New("issuer: certificate template needs SubjectKey and Serial")
	}
	var parts [][]byte
	v := t.Version
	if v == 0 {
		v = 3
	}
	if v != 1 {
		parts = append(parts, der.Explicit(0, der.IntFromInt64(int64(v-1))))
	}
	parts = append(parts, der.Int(t.Serial), t.SigAlg.AlgID(), t.issuerDER(),
		der.Seq(EncodeTime(t.NotBefore, t.TimeForm), EncodeTime(t.NotAfter, t.TimeForm)),
		t.subjectDER(), t.SubjectKey.SPKI())
	if ex := t.Extensions(); len(ex) > 0 {
		var es [][]byte
		for _, e := range ex {
			es = append(es, e.der())
		}
		parts = append(parts, der.Explicit(3, der.Seq(es...)))
	}
	return der.Seq(parts...), nil
}

// CreateCertificate signs the template with signer (self-signed when signer
// holds the subject key).
func CreateCertificate(src Source, tmpl CertTemplate, signer *Key) (*Certificate, error) {
	tbs, err := tmpl.TBSCertificate()
	if err != nil {
		return nil, err
	}
	sig, err := signer.Sign(src, tmpl.SigAlg, tbs)
	if err != nil {
		return nil, err
	}
	outer := tmpl.SigAlg
	if tmpl.OuterSigAlg != nil {
		outer = *tmpl.OuterSigAlg
	}
	return &Certificate{
		DER: der.Seq(tbs, outer.AlgID(), der.BitString(sig, 0)), TBS: tbs, Sig: sig, Tmpl: tmpl, Key: tmpl.SubjectKey,
	}, nil
}

// RandomSerial draws a positive serial number of n octets (top bit clear,
// never zero) as ICAO 9303-12 requires (positive, at most 20 octets).
func RandomSerial(src Source, n int) *big.Int {
	b := src.Bytes(n)
	b[0] &= 0x7f
	v := new(big.Int).SetBytes(b)
	if v.Sign() == 0 {
		v.SetInt64(1)
	}
	return v
}

// PrivateKeyUsagePeriod builds the extension content.
func PrivateKeyUsagePeriod(from, to time.Time) []byte {
	return der.Seq(
		der.Implicit(0, false, []byte(from.UTC().Format("20060102150405Z"))),
		der.Implicit(1, false, []byte(to.UTC().Format("20060102150405Z"))))
}
