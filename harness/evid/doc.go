package evid
