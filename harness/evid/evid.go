// Package evid is the evidence / violation recorder shared by every check.
//
// One test binary process (= one shard of one property) records:
//   - evaluations: how many cases were generated / executed,
//   - classes: the measured distribution of the generator (free-form labels),
//   - a set of 64-bit hashes of the canonical key of every NON-TRIVIAL case
//     (so the driver can report a measured count of DISTINCT non-trivial cases),
//   - a reservoir of written-out sample cases,
//   - how many cases were excluded because they fall in a known finding,
//   - markers for violations / infrastructure problems / short rapid runs.
//
// The process writes all this as JSON to $VERIF_EVID_OUT when Flush is called
// (from TestMain).  The driver merges the shards into /verif/evidence/<id>.json.
package evid

import (
	"encoding/json"
	"flag"
	"fmt"
	"hash/fnv"
	"os"
	"path/filepath"
	"runtime"
	"sort"
	"strconv"
	"strings"
	"sync"
	"testing"
	"time"

	"pgregory.net/rapid"
)

const maxHashes = 4_000_000 // per shard; beyond that distinct counting saturates (conservative)
const maxSamples = 24

type shardFile struct {
	Property    string            `json:"property"`
	Shard       int               `json:"shard"`
	Shards      int               `json:"shards"`
	Seed        int64             `json:"seed"`
	Tier        string            `json:"tier"`
	Evaluations int64             `json:"evaluations"`
	Classes     map[string]int64  `json:"classes"`
	Hashes      []string          `json:"hashes"`
	Saturated   bool              `json:"saturated"`
	Samples     []json.RawMessage `json:"samples"`
	Excluded    map[string]int64  `json:"excluded"`
	Short       []string          `json:"short"`
	Violations  []ViolationRec    `json:"violations"`
	Infra       []string          `json:"infra"`
	Known       []string          `json:"known_reported"`
	Exhaustive  map[string]bool   `json:"exhaustive"`
	Metrics     map[string]any    `json:"metrics"`
	WallS       float64           `json:"wall_s"`
}

type ViolationRec struct {
	Test   string `json:"test"`
	Replay string `json:"replay"`
	Msg    string `json:"msg"`
}

var (
	mu          sync.Mutex
	start       = time.Now()
	evaluations int64
	classes     = map[string]int64{}
	hashes      = map[uint64]struct{}{}
	saturated   bool
	samples     []json.RawMessage
	sampleSeen  = map[string]int{}
	excluded    = map[string]int64{}
	short       []string
	violations  []ViolationRec
	infra       []string
	knownRep    []string
	exhaustive  = map[string]bool{}
	metrics     = map[string]any{}
	property    string
)

// ---------------------------------------------------------------- environment

func Tier() string {
	t := os.Getenv("VERIF_TIER")
	if t == "thorough" {
		return "thorough"
	}
	return "quick"
}

func Thorough() bool { return Tier() == "thorough" }

func Seed() int64 {
	s, err := strconv.ParseInt(os.Getenv("VERIF_SEED"), 10, 64)
	if err != nil {
		return 1
	}
	return s
}

func Shard() int {
	n, _ := strconv.Atoi(os.Getenv("VERIF_SHARD"))
	return n
}

func Shards() int {
	n, _ := strconv.Atoi(os.Getenv("VERIF_SHARDS"))
	if n < 1 {
		n = 1
	}
	return n
}

// VerifDir is the root of the /verif tree (for known_findings.json, replays).
func VerifDir() string {
	if d := os.Getenv("VERIF_DIR"); d != "" {
		return d
	}
	return "/verif"
}

// Pick returns q in the quick tier and th in the thorough tier.
func Pick(q, th int) int {
	if Thorough() {
		return th
	}
	return q
}

// PerShard splits a total case count over the shards (at least 1 per shard).
func PerShard(total int) int {
	n := (total + Shards() - 1) / Shards()
	if n < 1 {
		n = 1
	}
	return n
}

// ShardRange splits [0,n) into contiguous ranges, returning this shard's.
func ShardRange(n int) (lo, hi int) {
	s, k := Shards(), Shard()
	lo = n * k / s
	hi = n * (k + 1) / s
	return
}

// MineIdx reports whether index i of an enumeration belongs to this shard
// (round-robin, so every shard sees every region of the space).
func MineIdx(i int) bool { return i%Shards() == Shard() }

// DerivedSeed gives a non-zero rapid seed that is a pure function of
// VERIF_SEED, the shard and a label (test name).
func DerivedSeed(label string) uint64 {
	h := fnv.New64a()
	fmt.Fprintf(h, "%d/%d/%d/%s", Seed(), Shard(), Shards(), label)
	v := h.Sum64() & 0x7fffffffffffffff
	if v == 0 {
		v = 1
	}
	return v
}

// ---------------------------------------------------------------- recording

func hashKey(key string) uint64 {
	h := fnv.New64a()
	h.Write([]byte(key))
	return h.Sum64()
}

// Case records one evaluated case.  class labels the generator's distribution;
// nontrivial says whether it is non-trivial by the property's stated rule; key
// is the canonical identity used for distinct counting; sample (may be nil) is
// a JSON-marshalable description, kept in a small reservoir (at most a few per
// class).
func Case(class string, nontrivial bool, key string, sample any) {
	if fuzzMode {
		return
	}
	mu.Lock()
	defer mu.Unlock()
	evaluations++
	classes[class]++
	if nontrivial {
		classes["~nontrivial"]++
		if len(hashes) < maxHashes {
			hashes[hashKey(class+"|"+key)] = struct{}{}
		} else {
			saturated = true
		}
		if sampleSeen[class] < 2 && len(samples) < maxSamples {
			if sample == nil {
				// no written-out case supplied: the canonical key identifies it
				k := key
				if len(k) > 600 {
					k = k[:600] + "..."
				}
				sample = map[string]any{"key": k}
			}
			if b, err := json.Marshal(map[string]any{"class": class, "case": sample}); err == nil {
				if len(b) > 4096 {
					b, _ = json.Marshal(map[string]any{"class": class, "case_truncated": string(b[:4000])})
				}
				samples = append(samples, b)
				sampleSeen[class]++
			}
		}
	}
}

// CaseFn is Case with a lazily built sample: mk is called only when the
// reservoir would keep a sample of this class (so hot loops pay nothing).
func CaseFn(class string, nontrivial bool, key string, mk func() any) {
	var sample any
	if nontrivial && mk != nil && WantSample(class) {
		sample = mk()
	}
	Case(class, nontrivial, key, sample)
}

// WantSample reports whether a written-out sample of this class would be kept.
func WantSample(class string) bool {
	if fuzzMode {
		return false
	}
	mu.Lock()
	defer mu.Unlock()
	return sampleSeen[class] < 2 && len(samples) < maxSamples
}

// Hex renders bytes for a sample, abbreviating long strings.
func Hex(b []byte) string {
	const hexd = "0123456789abcdef"
	enc := func(x []byte) string {
		o := make([]byte, 0, 2*len(x))
		for _, c := range x {
			o = append(o, hexd[c>>4], hexd[c&15])
		}
		return string(o)
	}
	if len(b) <= 160 {
		return enc(b)
	}
	return enc(b[:96]) + fmt.Sprintf("...(%d bytes)...", len(b)) + enc(b[len(b)-32:])
}

// Count adds n to a class counter without counting an evaluation.
func Count(class string, n int64) {
	if fuzzMode {
		return
	}
	mu.Lock()
	classes[class] += n
	mu.Unlock()
}

// Excluded counts a generated case that was skipped because it falls into the
// input class of an OPEN known finding.
func Excluded(finding string) {
	if fuzzMode {
		return
	}
	mu.Lock()
	excluded[finding]++
	mu.Unlock()
}

// Exhaustive records that the named enumeration was completed in full by this
// shard's share (the driver ANDs over shards and over names).
func Exhaustive(name string, done bool) {
	mu.Lock()
	if prev, ok := exhaustive[name]; ok {
		exhaustive[name] = prev && done
	} else {
		exhaustive[name] = done
	}
	mu.Unlock()
}

// Metric stores an informative value in the evidence (last write wins).
func Metric(name string, v any) {
	mu.Lock()
	metrics[name] = v
	mu.Unlock()
}

// ---------------------------------------------------------------- failures

type tb interface {
	Helper()
	Fatalf(format string, args ...any)
	Logf(format string, args ...any)
}

func replayOutDir() string {
	d := os.Getenv("VERIF_REPLAY_OUT")
	if d == "" {
		d = filepath.Join(os.TempDir(), "verif-replay-out")
	}
	os.MkdirAll(d, 0o755)
	return d
}

func sanitize(s string) string {
	r := strings.NewReplacer("/", "_", " ", "_", ":", "_")
	return r.Replace(s)
}

// Fail records a violation: writes a human-readable repro (JSON) next to the
// rapid fail file and fails the test.  name identifies the (sub)check; repro
// is any JSON-marshalable description of the failing case (inputs in hex etc).
// During rapid shrinking this is called repeatedly; the file is overwritten so
// that the last one written is the minimal case.
func Fail(t tb, name string, repro any, format string, args ...any) {
	t.Helper()
	msg := fmt.Sprintf(format, args...)
	path := filepath.Join(replayOutDir(), sanitize(name)+fmt.Sprintf(".shard%d.json", Shard()))
	b, _ := json.MarshalIndent(map[string]any{
		"property": property, "check": name, "message": msg, "case": repro,
		"seed": Seed(), "tier": Tier(),
	}, "", " ")
	os.WriteFile(path, b, 0o644)
	mu.Lock()
	found := false
	for i := range violations {
		if violations[i].Test == name {
			violations[i].Msg, violations[i].Replay, found = msg, path, true
		}
	}
	if !found {
		violations = append(violations, ViolationRec{Test: name, Replay: path, Msg: msg})
	}
	mu.Unlock()
	fmt.Printf("VERIF-VIOLATION check=%s replay=%s msg=%s\n", name, path, oneLine(msg))
	t.Fatalf("VIOLATION %s: %s", name, msg)
}

// HangLimit is how long a single call of library code may stay out before it is reported as not
// returning.  Ordinary calls take microseconds to milliseconds; the limit is four to seven orders of
// magnitude above that, so that a starved machine cannot reach it, while an endless loop or a
// goroutine blocked on a lock it will never get always does.
const HangLimit = 150 * time.Second

// Abort records a violation that leaves the process in a state it cannot continue from (a call that
// never returned: its goroutine cannot be stopped) - the replay file and the VERIF-VIOLATION line are
// written, the evidence is flushed and the process exits at once.
func Abort(name string, repro any, format string, args ...any) {
	msg := fmt.Sprintf(format, args...)
	path := filepath.Join(replayOutDir(), sanitize(name)+fmt.Sprintf(".shard%d.json", Shard()))
	b, _ := json.MarshalIndent(map[string]any{"property": property, "check": name, "message": msg, "case": repro, "seed": Seed(), "tier": Tier()}, "", " ")
	os.WriteFile(path, b, 0o644)
	mu.Lock()
	violations = append(violations, ViolationRec{Test: name, Replay: path, Msg: msg})
	mu.Unlock()
	fmt.Printf("VERIF-VIOLATION check=%s replay=%s msg=%s\n", name, path, oneLine(msg))
	Flush()
	os.Exit(1)
}

// Watch runs fn and returns true when it came back within HangLimit; otherwise it returns false with
// a dump of all goroutine stacks (fn's goroutine is still out there).
func Watch(fn func()) (returned bool, stacks string) {
	done := make(chan struct{})
	go func() {
		defer close(done)
		fn()
	}()
	timer := time.NewTimer(HangLimit)
	defer timer.Stop()
	select {
	case <-done:
		return true, ""
	case <-timer.C:
		buf := make([]byte, 1<<17)
		n := runtime.Stack(buf, true)
		return false, string(buf[:n])
	}
}

func oneLine(s string) string {
	s = strings.ReplaceAll(s, "\n", " ")
	if len(s) > 400 {
		s = s[:400] + "..."
	}
	return s
}

// Infra records an infrastructure problem (self-test failed, generator did not
// reach a required class, ...).  The driver maps this to exit code 2: it is
// never reported as a violation of the property.
func Infra(t tb, format string, args ...any) {
	t.Helper()
	msg := fmt.Sprintf(format, args...)
	mu.Lock()
	infra = append(infra, msg)
	mu.Unlock()
	fmt.Printf("VERIF-INFRA %s\n", oneLine(msg))
	t.Fatalf("INFRA: %s", msg)
}

// InfraNote records an infrastructure problem without failing the current test.
func InfraNote(format string, args ...any) {
	msg := fmt.Sprintf(format, args...)
	mu.Lock()
	infra = append(infra, msg)
	mu.Unlock()
	fmt.Printf("VERIF-INFRA %s\n", oneLine(msg))
}

// ---------------------------------------------------------------- known findings

type Finding struct {
	Property string `json:"property"`
	Key      string `json:"key"`
	Status   string `json:"status"` // open | fixed
	Commit   string `json:"commit,omitempty"`
	What     string `json:"what"`
	Match    string `json:"match,omitempty"`
}

var (
	knownOnce sync.Once
	knownAll  []Finding
)

func loadKnown() {
	b, err := os.ReadFile(filepath.Join(VerifDir(), "known_findings.json"))
	if err != nil {
		return
	}
	var f struct {
		Findings []Finding `json:"findings"`
	}
	if json.Unmarshal(b, &f) == nil {
		knownAll = f.Findings
	}
}

// Open reports whether the finding `key` of `prop` is listed as OPEN in
// /verif/known_findings.json.  Only then may a check exclude its input class.
func Open(prop, key string) bool {
	knownOnce.Do(loadKnown)
	for _, f := range knownAll {
		if f.Property == prop && f.Key == key && f.Status == "open" {
			return true
		}
	}
	return false
}

// ReportKnown prints the KNOWN-FINDING line for an open finding whose probe
// still reproduces on the current tree.
func ReportKnown(prop, key, what string) {
	mu.Lock()
	for _, k := range knownRep {
		if k == prop+"/"+key {
			mu.Unlock()
			return
		}
	}
	knownRep = append(knownRep, prop+"/"+key)
	mu.Unlock()
	fmt.Printf("KNOWN-FINDING: property=%s %s [%s]\n", prop, what, key)
}

// ---------------------------------------------------------------- rapid glue

// RapidCheck runs a rapid property with a case count taken from the tier
// (total counts, split over shards), a seed derived from VERIF_SEED, and a
// fail file in the replay-out directory.  It detects short runs (rapid stops
// silently at the test deadline) and records them as inconclusive.
func RapidCheck(t *testing.T, quickTotal, thoroughTotal int, prop func(*rapid.T)) {
	if capturing {
		captured = prop
		return
	}
	t.Helper()
	n := PerShard(Pick(quickTotal, thoroughTotal))
	if v := os.Getenv("VERIF_CHECKS_OVERRIDE"); v != "" {
		if k, err := strconv.Atoi(v); err == nil {
			n = k
		}
	}
	replaying := os.Getenv("VERIF_RAPID_FAILFILE") != ""
	if replaying {
		flag.Set("rapid.failfile", os.Getenv("VERIF_RAPID_FAILFILE"))
	} else {
		flag.Set("rapid.checks", strconv.Itoa(n))
		flag.Set("rapid.seed", strconv.FormatUint(DerivedSeed(t.Name()), 10))
		// rapid writes its fail file under testdata/rapid/<Test>/ of the cwd;
		// the driver sets the cwd to a scratch directory and collects it.
		flag.Set("rapid.nofailfile", "false")
		flag.Set("rapid.shrinktime", Pick2("20s", "60s"))
	}
	var calls int64
	var cmu sync.Mutex
	wrapped := func(rt *rapid.T) {
		cmu.Lock()
		calls++
		cmu.Unlock()
		prop(rt)
	}
	rapid.Check(t, wrapped)
	if !t.Failed() && !replaying {
		cmu.Lock()
		c := calls
		cmu.Unlock()
		if c < int64(n) {
			mu.Lock()
			short = append(short, fmt.Sprintf("%s: %d of %d", t.Name(), c, n))
			mu.Unlock()
			fmt.Printf("VERIF-SHORT %s ran %d of %d cases\n", t.Name(), c, n)
		}
	}
	if t.Failed() {
		fmt.Printf("VERIF-RAPIDFAIL test=%s\n", t.Name())
	}
}

// ---------------------------------------------------------------- coverage-guided mode

var (
	capturing bool
	captured  func(*rapid.T)
	fuzzMode  bool
)

// Fuzzing reports whether the process runs a property under the native fuzzer
// (no evidence is recorded then: worker processes come and go).
func Fuzzing() bool { return fuzzMode }

// FuzzVia runs the rapid property of a Test function (the one it hands to
// RapidCheck) under Go's coverage-guided fuzzer: the property is captured by
// calling the Test function in capture mode (RapidCheck returns at once and the
// *testing.T, nil here, is never touched - only Test functions whose set-up
// before RapidCheck does not use t may be passed), then driven by
// rapid.MakeFuzz, so the fuzzer mutates rapid's bit stream with coverage
// feedback.  A failing input is saved by the Go tool under testdata/fuzz/ and is
// the replay file; violations are reported through Fail as usual.
func FuzzVia(f *testing.F, test func(*testing.T)) {
	capturing, captured = true, nil
	test(nil)
	capturing = false
	p := captured
	if p == nil {
		f.Fatalf("FuzzVia: the test function did not reach RapidCheck")
	}
	fuzzMode = true
	// seed corpus: rapid reads its choices from the input bytes, so an empty corpus means
	// "every draw fails" until the fuzzer has grown inputs; start from bit streams long enough
	// to complete a case (pseudo-random, all-zero = minimal choices, all-ones = maximal choices)
	for i, n := range []int{512, 2048, 8192, 32768} {
		b := make([]byte, n)
		x := uint64(0x9E3779B97F4A7C15) * uint64(i+1)
		for j := range b {
			x ^= x << 13
			x ^= x >> 7
			x ^= x << 17
			b[j] = byte(x >> 32)
		}
		f.Add(b)
	}
	f.Add(make([]byte, 4096))
	ones := make([]byte, 4096)
	for i := range ones {
		ones[i] = 0xFF
	}
	f.Add(ones)
	f.Fuzz(rapid.MakeFuzz(p))
}

func Pick2(q, th string) string {
	if Thorough() {
		return th
	}
	return q
}

// ---------------------------------------------------------------- flush

// Main is the TestMain body used by every check package.
func Main(m *testing.M, prop string) {
	property = prop
	code := m.Run()
	Flush()
	os.Exit(code)
}

func Flush() {
	out := os.Getenv("VERIF_EVID_OUT")
	if out == "" {
		return
	}
	mu.Lock()
	defer mu.Unlock()
	hs := make([]string, 0, len(hashes))
	for h := range hashes {
		hs = append(hs, strconv.FormatUint(h, 36))
	}
	sort.Strings(hs)
	sf := shardFile{
		Property: property, Shard: Shard(), Shards: Shards(), Seed: Seed(), Tier: Tier(),
		Evaluations: evaluations, Classes: classes, Hashes: hs, Saturated: saturated,
		Samples: samples, Excluded: excluded, Short: short, Violations: violations,
		Infra: infra, Known: knownRep, Exhaustive: exhaustive, Metrics: metrics,
		WallS: time.Since(start).Seconds(),
	}
	b, err := json.Marshal(sf)
	if err != nil {
		fmt.Printf("VERIF-INFRA cannot marshal evidence: %v\n", err)
		return
	}
	if err := os.WriteFile(out, b, 0o644); err != nil {
		fmt.Printf("VERIF-INFRA cannot write evidence: %v\n", err)
	}
}
