package c20

import (
	"fmt"
	"sync"
	"testing"

	"github.com/gmrtd/gmrtd/document"
	"github.com/gmrtd/gmrtd/mobile"

	"verifharness/evid"
)

// ---------------------------------------------------------------- (d) lazily loaded built-in trust store

// TestPreloadRace must run before anything else touches the built-in pool in
// this process (go test runs the files in alphabetical order, this file sorts
// first, and the fixture of the other tests uses mobile.Verifier).
func TestPreloadRace(t *testing.T) {
	if fix != nil {
		return
	}
	var wg sync.WaitGroup
	start := make(chan struct{})
	errs := make([]error, 16)
	outs := make([]string, 16)
	// NB the blob is built WITHOUT the mobile package: mobile.NewSampleDocument would
	// initialise the built-in trust store before the race starts
	var blob []byte
	if sd, err := document.SampleDocument(); err == nil {
		ex := &document.DocumentEx{Document: *sd}
		blob, _ = ex.ToCbor()
	}
	if len(blob) == 0 {
		evid.Infra(t, "cannot build the sample blob")
	}
	for i := 0; i < 16; i++ {
		wg.Add(1)
		go func(i int) {
			defer wg.Done()
			<-start
			if i%2 == 0 {
				errs[i] = mobile.PreloadCscaCertPool()
			} else {
				d, err := mobile.NewVerifier().Verify(blob)
				errs[i] = nil
				outs[i] = mobileOutcome(d, err)
			}
		}(i)
	}
	close(start)
	wg.Wait()
	evid.Case("preload-race", true, fmt.Sprintf("preload-%d-%d", evid.Shard(), evid.Seed()), map[string]any{"goroutines": 16})
	for i := 0; i < 16; i += 2 {
		if errs[i] != nil {
			evid.Fail(t, "preload", nil, "PreloadCscaCertPool failed under concurrency: %v", errs[i])
		}
	}
	for i := 3; i < 16; i += 2 {
		if outs[i] != outs[1] {
			evid.Fail(t, "preload", map[string]any{"a": outs[1], "b": outs[i]}, "first-use calls racing the preload returned different results")
		}
	}
	// after initialisation a lone call gives the same result
	d, err := mobile.NewVerifier().Verify(blob)
	if got := mobileOutcome(d, err); got != outs[1] {
		evid.Fail(t, "preload", map[string]any{"racing": outs[1], "lone": got}, "a call racing the initialisation returned another result than a lone call")
	}
}
