// C20 — Shared readers, verifiers and trust stores are safe under concurrency.
//
// rapid generates small concurrent programs (which calls, on how many
// goroutines, with which yields) that are executed under the race detector
// (the package is built with -race).  Results are checked for linearizability
// with porcupine against a sequential model obtained from lone calls (shared
// verifiers), against the set of all sequential orders (shared readers), and
// against lone-call results (independent instances sharing one trust store).
// The Go scheduler is not under the harness's control: this is stress
// exploration with perturbation, not enumeration of interleavings.
package c20

import (
	"bytes"
	"encoding/hex"
	"fmt"
	"runtime"
	"sort"
	"strings"
	"sync"
	"sync/atomic"
	"testing"
	"time"

	"github.com/anishathalye/porcupine"
	"github.com/gmrtd/gmrtd/cms"
	"github.com/gmrtd/gmrtd/document"
	"github.com/gmrtd/gmrtd/iso7816"
	"github.com/gmrtd/gmrtd/mobile"
	"github.com/gmrtd/gmrtd/password"
	"github.com/gmrtd/gmrtd/reader"
	"github.com/gmrtd/gmrtd/verifier"
	"pgregory.net/rapid"

	"verifharness/evid"
	"verifharness/issuer"
	"verifharness/persona"
	"verifharness/readcheck"
)

const prop = "C20"

func TestMain(m *testing.M) { evid.Main(m, prop) }

var clock atomic.Int64

func tick() int64 { return clock.Add(1) }

// ---------------------------------------------------------------- fixtures

type fixture struct {
	p      *persona.Persona
	pool   *cms.GenericCertPool
	chals  [][]byte
	blobs  [][]byte   // blob i was read with AA challenge chals[i]
	table  [][]string // table[blob][challengeIndex+1] = lone-call outcome of verifier.Verify
	mtable [][]string // the same for mobile.Verifier (built-in trust store)
}

var (
	fixOnce sync.Once
	fix     *fixture
	fixErr  error
)

func outcomeOf(ex *document.DocumentEx, err error) string {
	if err != nil {
		return "ERR"
	}
	s := &ex.Session
	b := func(v bool) byte {
		if v {
			return '1'
		}
		return '0'
	}
	nonce := ""
	if s.ActiveAuthResult != nil && s.ActiveAuthResult.Evidence != nil {
		nonce = hex.EncodeToString(s.ActiveAuthResult.Evidence.Nonce)
	}
	sum := ex.Summary()
	return fmt.Sprintf("pa%c ver%c aa%c ca%c cam%c trusted%c auth%d nonce%s files%d",
		b(s.PassiveAuthResult != nil && s.PassiveAuthResult.Success), b(s.DocumentVerifyErr == nil),
		b(s.ActiveAuthResult != nil && s.ActiveAuthResult.Success), b(s.ChipAuthResult != nil && s.ChipAuthResult.Success),
		b(s.PaceCamResult != nil && s.PaceCamResult.Success), b(sum.DataTrusted), int(sum.ChipAuthenticity), nonce, len(readcheck.DocFiles(&ex.Document)))
}

func getFixture(t interface{ Fatalf(string, ...any) }) *fixture {
	fixOnce.Do(func() {
		f := &fixture{}
		o := persona.Opts{Seed: []byte("c20-fixture"), Country: "DE", Access: "PACE+BAC", AA: "RSA", AARSABits: 1024, CA: true, Trusted: true, Extended: true, DGs: []int{11}}
		p, err := persona.Build(o)
		if err != nil {
			fixErr = err
			return
		}
		f.p = p
		f.pool, err = readcheck.Pool(p)
		if err != nil {
			fixErr = err
			return
		}
		for i := 0; i < 3; i++ {
			c := []byte{byte(0xA0 + i), 1, 2, 3, 4, 5, 6, byte(i)}
			f.chals = append(f.chals, c)
			r, err := readcheck.Read(p, p.NewChip(), readcheck.ReadOpts{LibSeed: []byte{byte(i)}, AAChallenge: c})
			if err != nil || r.Err != nil {
				fixErr = fmt.Errorf("fixture read %d: %v %v", i, err, r.Err)
				return
			}
			blob, err := r.DocEx.ToCbor()
			if err != nil {
				fixErr = err
				return
			}
			f.blobs = append(f.blobs, blob)
		}
		// evidence that cannot be replayed: a shared verifier must answer it AND every call after it
		good := f.blobs[0]
		flipped := append([]byte{}, good...)
		flipped[len(flipped)/2] ^= 0x5A
		f.blobs = append(f.blobs, good[:len(good)/2], []byte{}, []byte{0xA0}, flipped)
		for i := range f.blobs {
			var row, mrow []string
			for j := -1; j < len(f.chals); j++ {
				v := verifier.NewVerifier(f.pool)
				mv := mobile.NewVerifier()
				if j >= 0 {
					v.WithAAChallenge(f.chals[j])
					mv.WithAAChallenge(f.chals[j])
				}
				ex, err := v.Verify(f.blobs[i])
				row = append(row, outcomeOf(ex, err))
				md, merr := mv.Verify(f.blobs[i])
				mrow = append(mrow, mobileOutcome(md, merr))
			}
			f.table = append(f.table, row)
			f.mtable = append(f.mtable, mrow)
		}
		fix = f
	})
	if fixErr != nil {
		t.Fatalf("INFRA fixture: %v", fixErr)
	}
	return fix
}

func mobileOutcome(d *mobile.Document, err error) string {
	if err != nil {
		return "ERR"
	}
	j, jerr := d.SummaryJson()
	if jerr != nil {
		return "SUMMARY-ERR"
	}
	return string(j)
}

// ---------------------------------------------------------------- (a) shared verifier

type vop struct {
	Set   bool
	Blob  int
	Chal  int
	Yield int
}

type vin struct {
	set  bool
	blob int
	chal int
}

func verifierModel(table [][]string) porcupine.Model {
	return porcupine.Model{
		Init: func() interface{} { return -1 },
		Step: func(state, input, output interface{}) (bool, interface{}) {
			in, st := input.(vin), state.(int)
			if in.set {
				return true, in.chal
			}
			return output.(string) == table[in.blob][st+1], st
		},
		DescribeOperation: func(input, output interface{}) string {
			in := input.(vin)
			if in.set {
				return fmt.Sprintf("WithAAChallenge(c%d)", in.chal)
			}
			return fmt.Sprintf("Verify(blob%d) -> %.40s", in.blob, output)
		},
	}
}

func perturb(n int) {
	for i := 0; i < n%4; i++ {
		runtime.Gosched()
	}
	if n%7 == 6 {
		time.Sleep(time.Duration(n%5) * 50 * time.Microsecond)
	}
}

type program struct {
	Threads [][]vop
	Procs   int
}

func drawProgram(rt *rapid.T, nblobs, nchals int) program {
	var p program
	p.Procs = rapid.SampledFrom([]int{2, 4, 16}).Draw(rt, "gomaxprocs")
	nt := rapid.IntRange(2, 8).Draw(rt, "threads")
	for i := 0; i < nt; i++ {
		n := rapid.IntRange(1, 4).Draw(rt, "ops")
		var th []vop
		for j := 0; j < n; j++ {
			th = append(th, vop{
				Set:   rapid.IntRange(0, 2).Draw(rt, "kind") == 0,
				Blob:  rapid.IntRange(0, nblobs-1).Draw(rt, "blob"),
				Chal:  rapid.IntRange(0, nchals-1).Draw(rt, "chal"),
				Yield: rapid.IntRange(0, 20).Draw(rt, "yield"),
			})
		}
		p.Threads = append(p.Threads, th)
	}
	return p
}

// runProgram executes the program; call(op) performs the operation and returns its output.
func runProgram(p program, call func(op vop) string) (ops []porcupine.Operation, overlapped bool) {
	old := runtime.GOMAXPROCS(p.Procs)
	defer runtime.GOMAXPROCS(old)
	var mu sync.Mutex
	var wg sync.WaitGroup
	start := make(chan struct{})
	for ti, th := range p.Threads {
		wg.Add(1)
		go func(ti int, th []vop) {
			defer wg.Done()
			<-start
			for _, op := range th {
				perturb(op.Yield)
				c := tick()
				out := call(op)
				r := tick()
				mu.Lock()
				ops = append(ops, porcupine.Operation{ClientId: ti, Input: vin{op.Set, op.Blob, op.Chal}, Call: c, Output: out, Return: r})
				mu.Unlock()
			}
		}(ti, th)
	}
	close(start)
	if back, stacks := evid.Watch(wg.Wait); !back {
		evid.Abort("hang-shared-object", map[string]any{"program": fmt.Sprintf("%+v", p), "stacks": stacks},
			"a program of calls on one shared object did not finish within %v (each call alone returns in milliseconds): %+v", evid.HangLimit, p)
	}
	for i := range ops {
		for j := range ops {
			if i != j && ops[i].Call < ops[j].Return && ops[j].Call < ops[i].Return && ops[i].ClientId != ops[j].ClientId {
				overlapped = true
			}
		}
	}
	return ops, overlapped
}

func history(ops []porcupine.Operation, m porcupine.Model) string {
	sort.Slice(ops, func(i, j int) bool { return ops[i].Call < ops[j].Call })
	s := ""
	for _, o := range ops {
		s += fmt.Sprintf("[%d..%d] t%d %s\n", o.Call, o.Return, o.ClientId, m.DescribeOperation(o.Input, o.Output))
	}
	return s
}

func TestSharedVerifier(t *testing.T) {
	f := getFixture(t)
	model := verifierModel(f.table)
	evid.RapidCheck(t, 240, 12000, func(rt *rapid.T) {
		p := drawProgram(rt, len(f.blobs), len(f.chals))
		v := verifier.NewVerifier(f.pool)
		ops, overlapped := runProgram(p, func(op vop) string {
			if op.Set {
				v.WithAAChallenge(f.chals[op.Chal])
				return ""
			}
			ex, err := v.Verify(f.blobs[op.Blob])
			return outcomeOf(ex, err)
		})
		evid.Case("shared-verifier", overlapped, fmt.Sprintf("%+v", p), map[string]any{"program": fmt.Sprintf("%+v", p)})
		if res := porcupine.CheckOperationsTimeout(model, ops, 20*time.Second); res == porcupine.Illegal {
			evid.Fail(rt, "shared-verifier", map[string]any{"program": fmt.Sprintf("%+v", p), "history": history(ops, model)}, "history of a shared verifier.Verifier is not linearizable:\n%s", history(ops, model))
		}
	})
}

func TestSharedMobileVerifier(t *testing.T) {
	f := getFixture(t)
	model := verifierModel(f.mtable)
	evid.RapidCheck(t, 120, 6000, func(rt *rapid.T) {
		p := drawProgram(rt, len(f.blobs), len(f.chals))
		v := mobile.NewVerifier()
		ops, overlapped := runProgram(p, func(op vop) string {
			if op.Set {
				v.WithAAChallenge(f.chals[op.Chal])
				return ""
			}
			d, err := v.Verify(f.blobs[op.Blob])
			return mobileOutcome(d, err)
		})
		evid.Case("shared-mobile-verifier", overlapped, fmt.Sprintf("%+v", p), map[string]any{"program": fmt.Sprintf("%+v", p)})
		if res := porcupine.CheckOperationsTimeout(model, ops, 20*time.Second); res == porcupine.Illegal {
			evid.Fail(rt, "shared-mobile-verifier", map[string]any{"program": fmt.Sprintf("%+v", p), "history": history(ops, model)}, "history of a shared mobile.Verifier is not linearizable:\n%s", history(ops, model))
		}
	})
}

// ---------------------------------------------------------------- (b) shared reader

type rop struct {
	Kind  int // 0 ReadDocument, 1 SkipImages, 2 WithAAChallenge, 3 SkipPace, 4 SetApduMaxLe(mobile)
	Chal  int
	Yield int
}

func (o rop) String() string {
	return [...]string{"ReadDocument", "SkipImages", "WithAAChallenge", "SkipPace", "SetApduMaxLe"}[o.Kind] + fmt.Sprint(o.Chal)
}

// yieldingLink perturbs the schedule inside the transceiver.
type yieldingLink struct {
	inner interface {
		Transceive(int, int, int, int, []byte, int, []byte) []byte
	}
	n     int
	inUse atomic.Int32
	Overl atomic.Int32
}

func (y *yieldingLink) Transceive(cla int, ins int, p1 int, p2 int, data []byte, le int, enc []byte) []byte {
	if y.inUse.Add(1) > 1 {
		y.Overl.Add(1) // two reads inside the link at once: the reader did not serialise them
	}
	defer y.inUse.Add(-1)
	y.n++
	if y.n%5 == 0 {
		runtime.Gosched()
	}
	return y.inner.Transceive(cla, ins, p1, p2, data, le, enc)
}

func readerOutcome(ex *document.DocumentEx, err error) string {
	if ex == nil {
		return fmt.Sprintf("nil-doc err=%v", err != nil)
	}
	s := outcomeOf(ex, nil)
	// the AA challenge is random unless one was set: label it instead of printing it
	if k := strings.Index(s, "nonce"); k >= 0 {
		rest := s[k+5:]
		sp := strings.Index(rest, " ")
		label := "random"
		if fix != nil {
			for ci, c := range fix.chals {
				if rest[:sp] == hex.EncodeToString(c) {
					label = fmt.Sprintf("c%d", ci)
				}
			}
		}
		if sp == 0 {
			label = "none"
		}
		s = s[:k+5] + label + rest[sp:]
	}
	names := []string{}
	for n := range readcheck.DocFiles(&ex.Document) {
		names = append(names, n)
	}
	sort.Strings(names)
	return fmt.Sprintf("err=%v pace=%v bac=%v %s %v", err != nil, ex.Session.PaceResult != nil, ex.Session.BacResult != nil, s, names)
}

// execReaderProgram runs ops (sequentially in the given order, or concurrently
// one goroutine per op) on a fresh shared reader.Reader + chip.
func execReader(f *fixture, ops []rop, order []int, concurrent bool, procs int) (outs []string, overlapped bool, linkOverlap int) {
	p := f.p
	p2, _ := persona.Build(func() persona.Opts { o := p.Opts; o.DGs = []int{2, 7, 11}; o.MaxImage = 300; return o }())
	chip := p2.NewChip()
	link := &yieldingLink{inner: chip}
	nfc := iso7816.NewNfcSession(link)
	pool, _ := readcheck.Pool(p2)
	rd := reader.NewReader(nil, nfc, pool)
	pass, _ := password.NewPasswordMrzi(p2.DocNo, p2.DOB, p2.Expiry)
	outs = make([]string, len(ops))
	do := func(i int) {
		switch ops[i].Kind {
		case 0:
			ex, _, err := rd.ReadDocument(pass, nil, nil)
			outs[i] = readerOutcome(ex, err)
		case 1:
			rd.SkipImages()
		case 2:
			rd.WithAAChallenge(f.chals[ops[i].Chal])
		case 3:
			rd.SkipPace()
		}
	}
	if !concurrent {
		for _, i := range order {
			do(i)
		}
		return outs, false, 0
	}
	old := runtime.GOMAXPROCS(procs)
	defer runtime.GOMAXPROCS(old)
	var wg sync.WaitGroup
	start := make(chan struct{})
	calls := make([][2]int64, len(ops))
	for i := range ops {
		wg.Add(1)
		go func(i int) {
			defer wg.Done()
			<-start
			perturb(ops[i].Yield)
			calls[i][0] = tick()
			do(i)
			calls[i][1] = tick()
		}(i)
	}
	close(start)
	wg.Wait()
	for i := range ops {
		for j := range ops {
			if i != j && calls[i][0] < calls[j][1] && calls[j][0] < calls[i][1] {
				overlapped = true
			}
		}
	}
	return outs, overlapped, int(link.Overl.Load())
}

func permutations(n int) [][]int {
	var out [][]int
	var rec func(cur []int, used []bool)
	rec = func(cur []int, used []bool) {
		if len(cur) == n {
			out = append(out, append([]int{}, cur...))
			return
		}
		for i := 0; i < n; i++ {
			if !used[i] {
				used[i] = true
				rec(append(cur, i), used)
				used[i] = false
			}
		}
	}
	rec(nil, make([]bool, n))
	return out
}

func TestSharedReader(t *testing.T) {
	f := getFixture(t)
	evid.RapidCheck(t, 64, 3000, func(rt *rapid.T) {
		n := rapid.IntRange(2, 4).Draw(rt, "ops")
		procs := rapid.SampledFrom([]int{2, 4, 16}).Draw(rt, "gomaxprocs")
		var ops []rop
		reads := 0
		for i := 0; i < n; i++ {
			k := rapid.SampledFrom([]int{0, 0, 1, 2, 3}).Draw(rt, "kind")
			if k == 0 {
				reads++
			}
			ops = append(ops, rop{Kind: k, Chal: rapid.IntRange(0, len(f.chals)-1).Draw(rt, "chal"), Yield: rapid.IntRange(0, 20).Draw(rt, "yield")})
		}
		if reads == 0 {
			ops[0].Kind = 0
		}
		// all sequential orders on fresh instances
		allowed := map[string]bool{}
		for _, order := range permutations(n) {
			outs, _, _ := execReader(f, ops, order, false, procs)
			allowed[fmt.Sprint(outs)] = true
		}
		outs, overlapped, linkOverlap := execReader(f, ops, nil, true, procs)
		rep := map[string]any{"ops": fmt.Sprint(ops), "gomaxprocs": procs, "outcomes": outs}
		evid.Case("shared-reader", overlapped, fmt.Sprint(ops, procs), rep)
		if linkOverlap > 0 {
			evid.Fail(rt, "shared-reader-serialisation", rep, "two ReadDocument calls of one shared reader were inside the transceiver at the same time (%d times)", linkOverlap)
		}
		if !allowed[fmt.Sprint(outs)] {
			rep["allowed"] = fmt.Sprint(len(allowed))
			evid.Fail(rt, "shared-reader", rep, "concurrent calls on a shared reader.Reader produced outcomes that no sequential order produces: %v", outs)
		}
	})
}

func TestSharedMobileReader(t *testing.T) {
	f := getFixture(t)
	evid.RapidCheck(t, 48, 2000, func(rt *rapid.T) {
		n := rapid.IntRange(2, 4).Draw(rt, "ops")
		procs := rapid.SampledFrom([]int{2, 4, 16}).Draw(rt, "gomaxprocs")
		var ops []rop
		for i := 0; i < n; i++ {
			ops = append(ops, rop{Kind: rapid.SampledFrom([]int{0, 0, 1, 2, 3, 4}).Draw(rt, "kind"), Chal: rapid.IntRange(0, len(f.chals)-1).Draw(rt, "chal"), Yield: rapid.IntRange(0, 20).Draw(rt, "yield")})
		}
		ops[0].Kind = 0
		run := func(order []int, concurrent bool) ([]string, bool, int) {
			chip := f.p.NewChip()
			link := &yieldingLink{inner: chip}
			rd := mobile.NewReader(nil, link)
			pass, _ := mobile.NewPasswordMrzi(f.p.DocNo, f.p.DOB, f.p.Expiry)
			outs := make([]string, len(ops))
			do := func(i int) {
				switch ops[i].Kind {
				case 0:
					d, err := rd.ReadDocument(pass, nil, nil)
					if d == nil {
						outs[i] = fmt.Sprintf("nil err=%v", err != nil)
						return
					}
					j, _ := d.SummaryJson()
					outs[i] = fmt.Sprintf("err=%v %s", err != nil, j)
				case 1:
					rd.SkipImages()
				case 2:
					rd.WithAAChallenge(f.chals[ops[i].Chal])
				case 3:
					rd.SkipPace()
				case 4:
					rd.SetApduMaxLe(64 + 64*ops[i].Chal)
				}
			}
			if !concurrent {
				for _, i := range order {
					do(i)
				}
				return outs, false, 0
			}
			old := runtime.GOMAXPROCS(procs)
			defer runtime.GOMAXPROCS(old)
			var wg sync.WaitGroup
			start := make(chan struct{})
			calls := make([][2]int64, len(ops))
			for i := range ops {
				wg.Add(1)
				go func(i int) {
					defer wg.Done()
					<-start
					perturb(ops[i].Yield)
					calls[i][0] = tick()
					do(i)
					calls[i][1] = tick()
				}(i)
			}
			close(start)
			wg.Wait()
			ov := false
			for i := range ops {
				for j := range ops {
					if i != j && calls[i][0] < calls[j][1] && calls[j][0] < calls[i][1] {
						ov = true
					}
				}
			}
			return outs, ov, int(link.Overl.Load())
		}
		allowed := map[string]bool{}
		for _, order := range permutations(n) {
			outs, _, _ := run(order, false)
			allowed[fmt.Sprint(outs)] = true
		}
		outs, overlapped, linkOverlap := run(nil, true)
		rep := map[string]any{"ops": fmt.Sprint(ops), "gomaxprocs": procs, "outcomes": outs}
		evid.Case("shared-mobile-reader", overlapped, fmt.Sprint(ops, procs), rep)
		if linkOverlap > 0 {
			evid.Fail(rt, "shared-mobile-reader-serialisation", rep, "two ReadDocument calls of one shared mobile.Reader were inside the transceiver at the same time")
		}
		if !allowed[fmt.Sprint(outs)] {
			evid.Fail(rt, "shared-mobile-reader", rep, "concurrent calls on a shared mobile.Reader produced outcomes that no sequential order produces: %v", outs)
		}
	})
}

// ---------------------------------------------------------------- (c) independent instances sharing a trust store

func TestIndependentInstancesShareTrustStore(t *testing.T) {
	f := getFixture(t)
	// three kinds of shared pool
	generic := f.pool
	combined := &cms.CombinedCertPool{}
	combined.AddCertPool(f.pool)
	ml, err := f.p.PKI.MasterList(f.p.PKI.TrustAnchorsDER(), issuer.MasterListOptions{})
	var sdPool cms.CertPool
	if err == nil {
		if sp, err2 := cms.CreateCertPoolFromSignedData(ml.DER, ml.RootDER); err2 == nil {
			sdPool = sp
		} else {
			evid.Infra(t, "CreateCertPoolFromSignedData on a genuine master list: %v", err2)
		}
	} else {
		evid.Infra(t, "issuer master list: %v", err)
	}
	// fresh, never-used instances of each kind: lazily built state inside a trust store (indexes,
	// caches) is initialised by its FIRST users, and those may well be concurrent
	fresh := map[string]func() cms.CertPool{
		"generic": func() cms.CertPool {
			p, err := readcheck.Pool(f.p)
			if err != nil {
				return generic
			}
			return p
		},
		"combined": func() cms.CertPool {
			c := &cms.CombinedCertPool{}
			if p, err := readcheck.Pool(f.p); err == nil {
				c.AddCertPool(p)
			} else {
				c.AddCertPool(f.pool)
			}
			return c
		},
		"signed-data": func() cms.CertPool {
			if sp, err := cms.CreateCertPoolFromSignedData(ml.DER, ml.RootDER); err == nil {
				return sp
			}
			return sdPool
		},
	}
	pools := []struct {
		name string
		pool cms.CertPool
	}{{"generic", generic}, {"combined", combined}, {"signed-data", sdPool}}
	// lone-call references
	type ref struct{ read, verify string }
	refs := map[string]ref{}
	for _, pl := range pools {
		chip := f.p.NewChip()
		nfc := iso7816.NewNfcSession(chip)
		pass, _ := password.NewPasswordMrzi(f.p.DocNo, f.p.DOB, f.p.Expiry)
		ex, _, err := reader.NewReader(nil, nfc, pl.pool).ReadDocument(pass, nil, nil)
		vx, verr := verifier.NewVerifier(pl.pool).Verify(f.blobs[0])
		refs[pl.name] = ref{readerOutcomeNoNonce(ex, err), outcomeOf(vx, verr)}
	}
	evid.RapidCheck(t, 96, 4000, func(rt *rapid.T) {
		pl := pools[rapid.IntRange(0, len(pools)-1).Draw(rt, "pool")]
		if rapid.IntRange(0, 3).Draw(rt, "fresh-pool") > 0 {
			pl.pool = fresh[pl.name]() // a copy of the element: the warmed pool stays in pools
			evid.Count("independent-fresh-trust-store", 1)
		}
		n := rapid.IntRange(4, 16).Draw(rt, "instances")
		procs := rapid.SampledFrom([]int{2, 4, 16}).Draw(rt, "gomaxprocs")
		kinds := make([]int, n)
		yields := make([]int, n)
		leRejects := make([]int, n)
		maxLes := make([]int, n)
		for i := range kinds {
			kinds[i] = rapid.IntRange(0, 2).Draw(rt, "kind") // 0 reader, 1 verifier, 2 pool lookups
			yields[i] = rapid.IntRange(0, 20).Draw(rt, "yield")
			leRejects[i] = rapid.SampledFrom([]int{0, 0, 200, 150, 255}).Draw(rt, "leReject")
			maxLes[i] = rapid.SampledFrom([]int{0, 0, 256, 1000}).Draw(rt, "maxLe")
			if leRejects[i] > 0 && kinds[i] == 0 {
				evid.Count("independent-reader-with-le-fallback", 1)
			}
		}
		old := runtime.GOMAXPROCS(procs)
		defer runtime.GOMAXPROCS(old)
		outs := make([]string, n)
		var wg sync.WaitGroup
		start := make(chan struct{})
		var running, maxRunning atomic.Int32
		for i := 0; i < n; i++ {
			wg.Add(1)
			go func(i int) {
				defer wg.Done()
				<-start
				perturb(yields[i])
				if r := running.Add(1); r > maxRunning.Load() {
					maxRunning.Store(r)
				}
				defer running.Add(-1)
				switch kinds[i] {
				case 0:
					chip := f.p.NewChip()
					// some chips refuse a READ BINARY above a size of their own, so that the readers run
					// their Le fallback (state shared between sessions there would be shared between goroutines here)
					chip.Cfg.LeReject = leRejects[i]
					nfc := iso7816.NewNfcSession(&yieldingLink{inner: chip})
					if maxLes[i] > 0 {
						nfc.SetMaxLe(maxLes[i])
					}
					pass, _ := password.NewPasswordMrzi(f.p.DocNo, f.p.DOB, f.p.Expiry)
					ex, _, err := reader.NewReader(nil, nfc, pl.pool).ReadDocument(pass, nil, nil)
					outs[i] = readerOutcomeNoNonce(ex, err)
				case 1:
					vx, verr := verifier.NewVerifier(pl.pool).Verify(f.blobs[0])
					outs[i] = outcomeOf(vx, verr)
				case 2:
					c := pl.pool.ByIssuerCountry("DE")
					a := pl.pool.All()
					outs[i] = fmt.Sprintf("lookup %d %d", len(c), len(a))
				}
			}(i)
		}
		close(start)
		wg.Wait()
		evid.Case("independent-"+pl.name, maxRunning.Load() > 1, fmt.Sprint(pl.name, kinds, procs), map[string]any{"pool": pl.name, "kinds": kinds, "gomaxprocs": procs})
		for i, k := range kinds {
			want := ""
			switch k {
			case 0:
				want = refs[pl.name].read
			case 1:
				want = refs[pl.name].verify
			default:
				continue
			}
			if outs[i] != want {
				evid.Fail(rt, "independent-instances", map[string]any{"pool": pl.name, "kinds": kinds, "got": outs[i], "want": want},
					"instance %d sharing the %s trust store returned %q, a lone call returns %q", i, pl.name, outs[i], want)
			}
		}
	})
}

// readerOutcomeNoNonce: the AA nonce is random per read, so it is not part of the comparison.
func readerOutcomeNoNonce(ex *document.DocumentEx, err error) string {
	if ex == nil {
		return fmt.Sprintf("nil-doc err=%v", err != nil)
	}
	if ex.Session.ActiveAuthResult != nil && ex.Session.ActiveAuthResult.Evidence != nil {
		c := *ex
		r := *ex.Session.ActiveAuthResult
		e := *r.Evidence
		e.Nonce = nil
		r.Evidence = &e
		c.Session.ActiveAuthResult = &r
		return readerOutcome(&c, err)
	}
	return readerOutcome(ex, err)
}

var _ = bytes.Equal

// gateLink pauses the read at a chosen exchange and hands the processor to other goroutines.
type gateLink struct {
	inner interface {
		Transceive(int, int, int, int, []byte, int, []byte) []byte
	}
	n, at int
	gate  func()
}

func (g *gateLink) Transceive(cla int, ins int, p1 int, p2 int, data []byte, le int, enc []byte) []byte {
	g.n++
	if g.n == g.at && g.gate != nil {
		g.gate()
	}
	return g.inner.Transceive(cla, ins, p1, p2, data, le, enc)
}

// TestSettersDuringRead: a schedule the harness owns.  One ReadDocument is in flight; at a drawn
// exchange the link parks it and releases a second goroutine that calls a drawn sequence of 1-3
// configuration setters one after another (it gets 40 ms, which is ample if nothing holds it back; if
// the reader serialises setters behind the running read they simply wait).  "No call observes
// another's configuration half-applied": the read's outcome must be the outcome of a read that saw
// some PREFIX of the setter sequence applied from its start (prefix 0 = serialised behind the read),
// computed sequentially on fresh readers.
func TestSettersDuringRead(t *testing.T) {
	f := getFixture(t)
	p2, err := persona.Build(func() persona.Opts { o := f.p.Opts; o.DGs = []int{2, 7, 11}; o.MaxImage = 300; return o }())
	if err != nil {
		evid.Infra(t, "persona: %v", err)
	}
	pool, _ := readcheck.Pool(p2)
	pass, _ := password.NewPasswordMrzi(p2.DocNo, p2.DOB, p2.Expiry)
	apply := func(rd *reader.Reader, s rop) {
		switch s.Kind {
		case 1:
			rd.SkipImages()
		case 2:
			rd.WithAAChallenge(f.chals[s.Chal])
		case 3:
			rd.SkipPace()
		}
	}
	// number of exchanges of a plain read (to draw the gate position)
	probe := &gateLink{inner: p2.NewChip()}
	reader.NewReader(nil, iso7816.NewNfcSession(probe), pool).ReadDocument(pass, nil, nil)
	total := probe.n
	evid.RapidCheck(t, 96, 3000, func(rt *rapid.T) {
		m := rapid.IntRange(1, 3).Draw(rt, "setters")
		var setters []rop
		for i := 0; i < m; i++ {
			setters = append(setters, rop{Kind: rapid.SampledFrom([]int{1, 3, 2, 1, 3}).Draw(rt, "kind"), Chal: rapid.IntRange(0, len(f.chals)-1).Draw(rt, "chal")})
		}
		at := rapid.IntRange(1, total).Draw(rt, "gate-at-exchange")
		allowed := map[string]int{}
		for j := 0; j <= m; j++ {
			rd := reader.NewReader(nil, iso7816.NewNfcSession(p2.NewChip()), pool)
			for _, s := range setters[:j] {
				apply(rd, s)
			}
			ex, _, err := rd.ReadDocument(pass, nil, nil)
			allowed[readerOutcome(ex, err)] = j
		}
		release, done := make(chan struct{}), make(chan struct{})
		link := &gateLink{inner: p2.NewChip(), at: at}
		rd := reader.NewReader(nil, iso7816.NewNfcSession(link), pool)
		midRead := false
		link.gate = func() {
			close(release)
			select {
			case <-done:
				midRead = true // the setters completed while the read was parked
			case <-time.After(40 * time.Millisecond):
			}
		}
		go func() {
			<-release
			for _, s := range setters {
				apply(rd, s)
			}
			close(done)
		}()
		ex, _, err := rd.ReadDocument(pass, nil, nil)
		out := readerOutcome(ex, err)
		if link.n < at {
			close(release) // the read ended before the gate: let the helper finish
		}
		<-done
		rep := map[string]any{"setters": fmt.Sprint(setters), "gateAtExchange": at, "exchangesOfAPlainRead": total, "outcome": out, "settersCompletedMidRead": midRead}
		evid.Case("setters-during-read", true, fmt.Sprint(setters, at), rep)
		if midRead {
			evid.Count("setters-completed-mid-read", 1)
		}
		if _, ok := allowed[out]; !ok {
			var al []string
			for k, j := range allowed {
				al = append(al, fmt.Sprintf("prefix %d: %s", j, k))
			}
			sort.Strings(al)
			rep["allowed"] = al
			evid.Fail(rt, "setters-during-read", rep, "a read during which %v were called (read parked at exchange %d of %d) ended as %q, which is the outcome of no read that saw a prefix of those setters applied", setters, at, total, out)
		}
	})
}
